package snapshots

import (
	"path/filepath"

	verif "reduction.dev/reduction/zz_verif"
)

// Harness_C13_PathSegmentRoundTrip: snapshot file names identify their checkpoint: the id
// recovered from "job-<segment>.snapshot" is the id that was encoded (hence distinct ids never
// share a file name).
func Harness_C13_PathSegmentRoundTrip() {
	a := verif.U64("a")
	got, ok := checkpointIDFromPath(filepath.Join("checkpoints", "job-"+pathSegment(a)+".snapshot"))
	verif.Assert(ok, "decodes")
	verif.Assert(got == a, "round-trip")
	verif.Reached()
}
