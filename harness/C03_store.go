package operator

import (
	"bytes"

	"reduction.dev/reduction-protocol/handlerpb"
	"reduction.dev/reduction/dkv"
	"reduction.dev/reduction/dkv/storage"
	"reduction.dev/reduction/partitioning"
	verif "reduction.dev/reduction/zz_verif"
)

type verifStateEntry struct {
	subject []byte
	ns      string
	key     []byte
}

// subject keys that are prefixes of one another, an empty namespace and an empty entry key
var verifStateEntries = []verifStateEntry{
	{[]byte("a"), "n", []byte("x")},
	{[]byte("ab"), "", []byte{}},
}

// Harness_C03_StoreHistory: the keyed state store over the real dkv.DB (MemoryFilesystem)
// whose memtable seals after every write and whose compaction triggers at two level-0
// tables. K steps of put (1-byte value, or a large value that makes the base level dominate
// so that later compactions are minor ones) / delete of two state entries / "background work
// completes"; after every step GetState of both subject keys and of a never-written key must
// equal the shadow map: overwritten and deleted entries never reappear however the state
// was flushed and compacted underneath.
func Harness_C03_StoreHistory() {
	verif.FixedRand(3, 1, 4, 1, 5, 9, 2, 6)
	verif.Abstract("bloom.Filter")
	fs := storage.NewMemoryFilesystem()
	db := dkv.Open(dkv.DBOptions{FileSystem: fs, MemTableSize: 10, TargetFileSize: 1 << 16, L0TableNumCompactionTrigger: 2}, nil)
	st := NewKeyedStateStore(db, partitioning.NewKeySpace(8, 1))
	val := make([][]byte, len(verifStateEntries))
	live := make([]bool, len(verifStateEntries))
	big := verif.Param("BIG", 20000)

	check := func(id string) {
		for i, e := range verifStateEntries {
			got, err := st.GetState(e.subject)
			verif.Assert(err == nil, id+"-get-state-succeeds")
			if !live[i] {
				verif.Assert(len(got) == 0, id+"-deleted-or-unwritten-entry-absent")
				continue
			}
			verif.Assert(len(got) == 1 && got[0].Namespace == e.ns && len(got[0].Entries) == 1, id+"-exactly-the-live-entry-of-this-key")
			if len(got) == 1 && len(got[0].Entries) == 1 {
				verif.Assert(bytes.Equal(got[0].Entries[0].Key, e.key), id+"-entry-key")
				verif.Assert(bytes.Equal(got[0].Entries[0].Value, val[i]), id+"-latest-value")
			}
		}
		got, err := st.GetState([]byte("b"))
		verif.Assert(err == nil && len(got) == 0, id+"-other-key-has-no-state")
	}

	k := verif.Param("K", 5)
	for step := 0; step < k; step++ {
		op := verif.Choose("op", 6)
		switch op {
		case 0, 1, 3: // put small (0, 3) or large (1)
			i := 0
			if op == 3 {
				i = 1
			}
			v := []byte{verif.Byte("v")}
			if op == 1 {
				v = append(v, make([]byte, big)...)
			}
			e := verifStateEntries[i]
			put := &handlerpb.StateMutation{Mutation: &handlerpb.StateMutation_Put{Put: &handlerpb.PutMutation{Key: e.key, Value: v}}}
			err := st.ApplyMutations(e.subject, []*handlerpb.StateMutationNamespace{{Namespace: e.ns, Mutations: []*handlerpb.StateMutation{put}}})
			verif.Assert(err == nil, "apply-succeeds")
			val[i], live[i] = v, true
		case 2, 4:
			i := 0
			if op == 4 {
				i = 1
			}
			e := verifStateEntries[i]
			del := &handlerpb.StateMutation{Mutation: &handlerpb.StateMutation_Delete{Delete: &handlerpb.DeleteMutation{Key: e.key}}}
			err := st.ApplyMutations(e.subject, []*handlerpb.StateMutationNamespace{{Namespace: e.ns, Mutations: []*handlerpb.StateMutation{del}}})
			verif.Assert(err == nil, "apply-succeeds")
			val[i], live[i] = nil, false
		default:
			verif.Assert(db.WaitOnTasks() == nil, "background-tasks-succeed")
		}
		check("step")
	}
	verif.Assert(db.WaitOnTasks() == nil, "background-tasks-succeed")
	check("settled")
	verif.Reached()
}
