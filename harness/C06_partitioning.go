package partitioning

import (
	verif "reduction.dev/reduction/zz_verif"
)

var verifPerms = [][]int{
	{0, 1, 2, 3}, {0, 1, 3, 2}, {0, 2, 1, 3}, {0, 2, 3, 1}, {0, 3, 1, 2}, {0, 3, 2, 1},
	{1, 0, 2, 3}, {1, 0, 3, 2}, {1, 2, 0, 3}, {1, 2, 3, 0}, {1, 3, 0, 2}, {1, 3, 2, 0},
	{2, 0, 1, 3}, {2, 0, 3, 1}, {2, 1, 0, 3}, {2, 1, 3, 0}, {2, 3, 0, 1}, {2, 3, 1, 0},
	{3, 0, 1, 2}, {3, 0, 2, 1}, {3, 1, 0, 2}, {3, 1, 2, 0}, {3, 2, 0, 1}, {3, 2, 1, 0},
}

func verifFact(n int) int {
	f := 1
	for i := 2; i <= n; i++ {
		f *= i
	}
	return f
}

// Harness_C06_Assign: restoring M old operator checkpoints into N new ranges. The old ranges
// are any partition of [0,count) with symbolic bounds, recorded in ANY order (the job stores
// them in acknowledgement order). Every new range must be handed exactly the old checkpoints
// whose range overlaps it.
func Harness_C06_Assign() {
	n := verif.IntRange("N", 1, verif.Param("N", 3))
	m := verif.IntRange("M", 1, verif.Param("M", 3))
	count := verif.Int("count")
	verif.Assume(verif.And(count >= 1, count <= 65535))
	to := keyGroupRanges(count, n)
	// old partition: 0 = b0 <= b1 <= ... <= bm = count, non-empty ranges
	bounds := make([]int, m+1)
	bounds[0] = 0
	for i := 1; i < m; i++ {
		bounds[i] = verif.Int("bound")
		verif.Assume(verif.And(bounds[i-1] < bounds[i], bounds[i] < count))
	}
	bounds[m] = count
	verif.Assume(bounds[m-1] < bounds[m])
	sorted := make([]KeyGroupRange, m)
	for i := 0; i < m; i++ {
		sorted[i] = KeyGroupRange{Start: bounds[i], End: bounds[i+1]}
	}
	// the order in which the old checkpoints were recorded
	var perm []int
	pi := verif.Choose("perm", verifFact(m))
	for _, p := range verifPerms {
		// permutations of m elements = those of 4 that fix the tail
		ok := true
		for j := m; j < 4; j++ {
			if p[j] != j {
				ok = false
			}
		}
		if ok {
			if pi == 0 {
				perm = p[:m]
				break
			}
			pi--
		}
	}
	from := make([]KeyGroupRange, m)
	for i := 0; i < m; i++ {
		from[i] = sorted[perm[i]]
	}
	got := AssignRanges(to, from)
	verif.Assert(len(got) == n, "one-assignment-per-new-range")
	for i := 0; i < n; i++ {
		for j := 0; j < m; j++ {
			want := verif.And(from[j].Start < to[i].End, to[i].Start < from[j].End)
			has := false
			cnt := 0
			for _, x := range got[i] {
				if x == j {
					has = true
					cnt++
				}
			}
			// an empty new range owns no key group: nothing is required of it
			toEmpty := to[i].Start == to[i].End
			verif.Assert(verif.Or(toEmpty, verif.Iff(has, want)), "assigned-iff-overlapping")
			verif.Assert(cnt <= 1, "assigned-at-most-once")
		}
	}
	verif.Reached()
}
