package operator

import (
	"bytes"
	"time"

	"reduction.dev/reduction-protocol/handlerpb"
	"reduction.dev/reduction/partitioning"
	verif "reduction.dev/reduction/zz_verif"
)

var verifCounts = []int{1, 2, 3, 7, 256, 257}

// Harness_C05_RouteVsOwn: for every key (bytes symbolic; hash abstracted to an arbitrary
// function) the operator the router picks is the only one whose partition owns the
// persisted state key and timer key of that subject key.
func Harness_C05_RouteVsOwn() {
	verif.Abstract("reduction.dev/reduction/util/murmur.Hash")
	count := verifCounts[verif.Choose("count", verif.Param("COUNTS", 4))]
	n := verif.IntRange("n", 1, verif.Param("N", 3))
	l := verif.IntRange("len", 0, verif.Param("L", 2))
	key := verif.Bytes("k", l)
	ks := partitioning.NewKeySpace(count, n)
	route := ks.RangeIndex(key)
	st := NewKeyedStateStore(nil, ks)
	ts := &TimerStore{keySpace: ks}
	ns := string(verif.Bytes("ns", verif.IntRange("nslen", 0, 1)))
	data := verif.Bytes("d", verif.IntRange("dlen", 0, 1))
	dbKey := st.encodeDBKey(key, ns, data)
	subj := st.encodeSubjectKey(key)
	nsec := verif.I64("nsec")
	verif.Assume(verif.And(nsec >= 0, nsec < 1000000000))
	_, tKey := ts.encodeTimerKey(key, time.Unix(verif.I64("sec")&0xffffffff, nsec))
	kg := ks.KeyGroup(key)
	verif.Assert(verif.And(dbKey[0] == byte(uint16(kg)>>8), dbKey[1] == byte(kg)), "state-key-prefixed-by-group")
	verif.Assert(verif.And(subj[0] == dbKey[0], subj[1] == dbKey[1]), "scan-prefix-prefixed-by-group")
	verif.Assert(verif.And(tKey[0] == byte(uint16(kg)>>8), tKey[1] == byte(kg)), "timer-key-prefixed-by-group")
	for j, r := range ks.KeyGroupRanges() {
		part := newOperatorPartition(r, nil)
		verif.Assert(verif.Iff(part.OwnsKey(dbKey), j == route), "state-owned-exactly-by-routed-operator")
		verif.Assert(verif.Iff(part.OwnsKey(tKey), j == route), "timer-owned-exactly-by-routed-operator")
	}
	verif.Reached()
}

func verifEq(a, b []byte) bool { return bytes.Equal(a, b) }

// Harness_C03_KeyCodec: composite state keys. decode(encode) is the identity, per-key scan
// prefixes are prefix-free across subject keys, state and timer schemas never collide,
// and the encoding is injective (namespaces up to 255 bytes, the limit ApplyMutations enforces).
func Harness_C03_KeyCodec() {
	verif.Abstract("reduction.dev/reduction/util/murmur.Hash")
	ks := partitioning.NewKeySpace(verifCounts[verif.Choose("count", 3)], 1)
	st := NewKeyedStateStore(nil, ks)
	kl := verif.IntRange("klen", 0, verif.Param("KL", 2))
	k := verif.Bytes("k", kl)
	nslens := []int{0, 1, 2, 255} // longer namespaces are rejected by ApplyMutations (C03_NamespaceLimit)
	nl := nslens[verif.Choose("nslen", verif.Param("NSL", 4))]
	nsb := verif.Bytes("ns", nl)
	d := verif.Bytes("d", verif.IntRange("dlen", 0, verif.Param("DL", 2)))
	enc := st.encodeDBKey(k, string(nsb), d)
	verif.Assert(enc[2] == 0x00, "state-schema-byte")
	ns2, d2 := st.decodeKey(enc)
	verif.Assert(verif.And(verifEq(ns2, nsb), verifEq(d2, d)), "decode-inverts-encode")

	// prefix-freeness against a second subject key
	k2 := verif.Bytes("k2", verif.IntRange("k2len", 0, verif.Param("KL", 2)))
	pre := st.encodeSubjectKey(k2)
	same := len(k) == len(k2) && verifEq(k, k2)
	verif.Assert(verif.Iff(bytes.HasPrefix(enc, pre), same), "scan-prefix-matches-only-own-key")

	// timers of any key never fall under a state scan prefix (schema byte 0x01 vs 0x00)
	ts := &TimerStore{keySpace: ks}
	_, tk := ts.encodeTimerKey(k2, time.Unix(int64(verif.U32("sec")), 0))
	verif.Assert(!bytes.HasPrefix(tk, pre), "timer-key-never-under-state-prefix")
	verif.Assert(tk[2] == 0x01, "timer-schema-byte")
	verif.Reached()
}

// Harness_C03_KeyInjective: two encodings are equal only if subject key, namespace and
// entry key are all equal (namespaces shorter than 256 bytes).
func Harness_C03_KeyInjective() {
	verif.Abstract("reduction.dev/reduction/util/murmur.Hash")
	ks := partitioning.NewKeySpace(7, 1)
	st := NewKeyedStateStore(nil, ks)
	m := verif.Param("ML", 1)
	k1 := verif.Bytes("k1", verif.IntRange("k1len", 0, m))
	n1 := verif.Bytes("n1", verif.IntRange("n1len", 0, m))
	d1 := verif.Bytes("d1", verif.IntRange("d1len", 0, m))
	k2 := verif.Bytes("k2", verif.IntRange("k2len", 0, m))
	n2 := verif.Bytes("n2", verif.IntRange("n2len", 0, m))
	d2 := verif.Bytes("d2", verif.IntRange("d2len", 0, m))
	e1 := st.encodeDBKey(k1, string(n1), d1)
	e2 := st.encodeDBKey(k2, string(n2), d2)
	same := len(k1) == len(k2) && len(n1) == len(n2) && len(d1) == len(d2) &&
		true
	var eqAll bool
	if same {
		eqAll = verif.And(verifEq(k1, k2), verif.And(verifEq(n1, n2), verifEq(d1, d2)))
	}
	verif.Assert(verif.Iff(verifEq(e1, e2), eqAll), "encoding-injective")
	verif.Reached()
}

// Harness_C03_NamespaceLimit: the namespace length is stored in one byte of the composite
// key, so a namespace of 256 bytes or more would alias a shorter one (finding F15). The
// store must refuse such a mutation set before touching the database (db is nil here:
// any write would panic).
func Harness_C03_NamespaceLimit() {
	ks := partitioning.NewKeySpace(4, 1)
	st := NewKeyedStateStore(nil, ks)
	nl := []int{256, 257, 300}[verif.Choose("nslen", 3)]
	ns := string(verif.Bytes("ns", nl))
	put := &handlerpb.StateMutation{Mutation: &handlerpb.StateMutation_Put{Put: &handlerpb.PutMutation{Key: []byte("e"), Value: []byte("v")}}}
	muts := []*handlerpb.StateMutationNamespace{
		{Namespace: ns, Mutations: []*handlerpb.StateMutation{put}},
	}
	err := st.ApplyMutations([]byte("k"), muts)
	verif.Assert(err != nil, "over-long-namespace-rejected-before-any-write")
	verif.Reached()
}

// Harness_C05_GroupPrefixLargeCounts: for key-group counts above 256 (two-byte groups) and 64
// concrete keys hashed by the real murmur function, everything persisted for a key - state
// entries, the scan prefix, timers - carries the key's group in its first two bytes and is owned
// by exactly the operator the key is routed to. (The symbolic harness C05_RouteVsOwn covers
// arbitrary keys under an uninterpreted hash; its witnesses for groups >= 256 do not replay
// natively because the real hash differs, so this harness supplies replayable ones.)
func Harness_C05_GroupPrefixLargeCounts() {
	count := []int{257, 1000, 4096, 65535}[verif.Choose("count", 4)]
	n := verif.IntRange("n", 1, 3)
	ks := partitioning.NewKeySpace(count, n)
	st := NewKeyedStateStore(nil, ks)
	ts := &TimerStore{keySpace: ks}
	high := 0
	for i := 0; i < 64; i++ {
		key := []byte{'k', byte('0' + i/8), byte('0' + i%8)}
		kg := ks.KeyGroup(key)
		if int(kg) >= 256 {
			high++
		}
		dbKey := st.encodeDBKey(key, "n", []byte("d"))
		subj := st.encodeSubjectKey(key)
		_, tKey := ts.encodeTimerKey(key, time.Unix(int64(i), 0))
		verif.Assert(dbKey[0] == byte(uint16(kg)>>8) && dbKey[1] == byte(kg), "state-key-prefixed-by-group")
		verif.Assert(subj[0] == dbKey[0] && subj[1] == dbKey[1], "scan-prefix-prefixed-by-group")
		verif.Assert(tKey[0] == byte(uint16(kg)>>8) && tKey[1] == byte(kg), "timer-key-prefixed-by-group")
		route := ks.RangeIndex(key)
		for j, r := range ks.KeyGroupRanges() {
			part := newOperatorPartition(r, nil)
			verif.Assert(part.OwnsKey(dbKey) == (j == route), "state-owned-exactly-by-routed-operator")
			verif.Assert(part.OwnsKey(tKey) == (j == route), "timer-owned-exactly-by-routed-operator")
		}
	}
	if count >= 1000 {
		verif.Assert(high > 0, "some-key-falls-into-a-two-byte-group")
	}
	verif.Reached()
}
