//go:build verif

package verif

import (
	"encoding/json"
	"os"

	"reduction.dev/reduction/util/verifhook"
)

// With the verif tag (native replays) the replay file's hook plan forces the order in
// which goroutines pass the named hook points of the repository.
func init() {
	p := os.Getenv("VERIF_REPLAY")
	if p == "" {
		return
	}
	b, err := os.ReadFile(p)
	if err != nil {
		return
	}
	var rf struct {
		HookPlan map[string][]int `json:"hook_plan"`
	}
	if json.Unmarshal(b, &rf) == nil && len(rf.HookPlan) > 0 {
		verifhook.SetPlan(rf.HookPlan)
	}
}
