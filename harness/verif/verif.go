// Package verif is the harness runtime. The same harness source runs in two ways:
//
//   - under gosym (the symbolic SSA interpreter) the functions marked "primitive"
//     are intercepted by name: inputs become solver variables, Assert becomes a
//     proof obligation, Choose/IntRange become path decisions;
//   - natively (go test with an overlay) the primitives read a replay vector
//     from the file named by VERIF_REPLAY, so a solver counterexample is
//     re-executed against the real build before it is reported.
//
// Everything that is not a primitive is ordinary Go built on the primitives and
// is interpreted like any other code.
package verif

import (
	"encoding/json"
	"fmt"
	"os"
	"runtime"
	"sync"
	"time"
)

type input struct {
	Name  string `json:"name"`
	Kind  string `json:"kind"`
	Shape bool   `json:"shape,omitempty"`
	Val   int64  `json:"val"`
}

type replayFile struct {
	Harness string         `json:"harness"`
	Params  map[string]int `json:"params"`
	Inputs  []input        `json:"inputs"`
}

var (
	mu      sync.Mutex
	loaded  bool
	inputs  []input
	pos     int
	Desync  string
	Reach   bool
	Assumed = true
)

func load() {
	if loaded {
		return
	}
	loaded = true
	p := os.Getenv("VERIF_REPLAY")
	if p == "" {
		return
	}
	b, err := os.ReadFile(p)
	if err != nil {
		panic("verif: cannot read replay file: " + err.Error())
	}
	var rf replayFile
	if err := json.Unmarshal(b, &rf); err != nil {
		panic("verif: bad replay file: " + err.Error())
	}
	inputs = rf.Inputs
	params = rf.Params
}

var params map[string]int

// Param returns a tier parameter (bounds such as sequence lengths); def when unset.
func Param(name string, def int) int {
	mu.Lock()
	defer mu.Unlock()
	load()
	if v, ok := params[name]; ok {
		return v
	}
	return def
}

// next pops the next recorded input (primitive helper, native side only).
func next(name, kind string) int64 {
	mu.Lock()
	defer mu.Unlock()
	load()
	if pos >= len(inputs) {
		// beyond the recorded vector: the counterexample did not constrain it
		pos++
		return 0
	}
	in := inputs[pos]
	pos++
	if in.Kind != kind {
		if Desync == "" {
			Desync = fmt.Sprintf("input %d: recorded %s/%s, requested %s/%s", pos-1, in.Name, in.Kind, name, kind)
		}
		panic(Failure{Kind: "desync", ID: Desync})
	}
	return in.Val
}

// Failure is the panic value used natively for failed assertions / assumptions.
type Failure struct {
	Kind string // "assert" "assume" "desync"
	ID   string
}

func (f Failure) Error() string { return "VERIF-" + f.Kind + " " + f.ID }

// ---- primitives (intercepted by gosym) ---------------------------------------

func Symbolic() bool { return false }

func Bool(name string) bool  { return next(name, "bool") != 0 }
func Byte(name string) byte  { return byte(next(name, "byte")) }
func U16(name string) uint16 { return uint16(next(name, "u16")) }
func U32(name string) uint32 { return uint32(next(name, "u32")) }
func U64(name string) uint64 { return uint64(next(name, "u64")) }
func Int(name string) int    { return int(next(name, "int")) }
func I64(name string) int64  { return next(name, "i64") }
func I32(name string) int32  { return int32(next(name, "i32")) }

// Choose returns a value in [0,n): a shape decision enumerated by the path manager.
func Choose(name string, n int) int { return int(next(name, "choose")) }

// CrashPoint: "the process dies here" — a decision.
func CrashPoint(label string) bool { return next(label, "crash") != 0 }

// Assume constrains the rest of the run (not retroactive).
func Assume(c bool) {
	if !c {
		panic(Failure{Kind: "assume", ID: "assumption false natively"})
	}
}

// Assert is a proof obligation.
func Assert(c bool, id string) {
	if !c {
		panic(Failure{Kind: "assert", ID: id})
	}
}

// AssertKnown is Assert where failures satisfying class belong to the listed finding.
func AssertKnown(c bool, id string, finding string, class bool) {
	if !c {
		panic(Failure{Kind: "assert", ID: id})
	}
}

// Reached marks the end of the harness (vacuity witness).
func Reached() { Reach = true }

// And/Or/Implies/Not are non-forking boolean connectives for harness oracles.
func And(a, b bool) bool     { return a && b }
func Or(a, b bool) bool      { return a || b }
func Implies(a, b bool) bool { return !a || b }
func Iff(a, b bool) bool     { return a == b }

// IteInt selects without forking.
func IteInt(c bool, a, b int) int {
	if c {
		return a
	}
	return b
}
func IteByte(c bool, a, b byte) byte {
	if c {
		return a
	}
	return b
}
func IteU64(c bool, a, b uint64) uint64 {
	if c {
		return a
	}
	return b
}
func IteI64(c bool, a, b int64) int64 {
	if c {
		return a
	}
	return b
}

// Concretize forces a value to be concrete (a decision over its feasible values under gosym).
func Concretize(x int) int { return x }

// scheduling: under gosym these are decision points; natively they give the other
// goroutines time to run to their next blocking operation or hook point.
func Yield()   { time.Sleep(20 * time.Millisecond) }
func Quiesce() { time.Sleep(50 * time.Millisecond) }
func ExploreSchedules(on bool, preemptBound int) {}

// ScheduleMode: 0 deterministic, 1 decisions at Yield/hook points only, 2 at every sync operation.
func ScheduleMode(mode int, preemptBound int) {}
func Note(s string)                           {}

// Abstract replaces later calls of the named function ("pkg/path.Func") by an
// uninterpreted function under gosym (no-op natively).
func Abstract(fn string) {}

// FireTimers lets every armed time.AfterFunc / time.NewTimer timer expire now and returns how
// many did (gosym only; natively it waits long enough for short timers to expire by themselves).
func FireTimers() int {
	time.Sleep(60 * time.Millisecond)
	return 0
}

// LongPause lets a long time pass: under gosym every armed timer expires (as FireTimers);
// natively it sleeps for 700 ms, longer than any "give up after a while" bound found in the code.
func LongPause() {
	time.Sleep(700 * time.Millisecond)
}

// ExploreSelect makes a select statement with several ready cases a decision (Go chooses
// among them at random); no-op natively.
func ExploreSelect(on bool) {}

// FireTickers makes every time.Ticker created so far tick once (gosym only; natively tickers
// run on real time).
func FireTickers() {}

// SetClock sets the virtual clock seen by time.Now (no-op natively).
func SetClock(ns int64) {}

// FixedRand makes math/rand intrinsics return the given sequence (cyclic) instead of fresh symbolic values.
func FixedRand(seq ...uint32) {}

// RunCleanups runs every runtime.AddCleanup callback whose object is unreachable (gosym only).
func RunCleanups() {
	for i := 0; i < 3; i++ {
		runtime.GC()
		time.Sleep(20 * time.Millisecond)
	}
}

// ---- ordinary Go on top of the primitives --------------------------------------

// IntRange returns a value in [lo,hi] (shape decision).
func IntRange(name string, lo, hi int) int { return lo + Choose(name, hi-lo+1) }

// Bytes returns n fresh bytes.
func Bytes(name string, n int) []byte {
	b := make([]byte, n)
	for i := range b {
		b[i] = Byte(name)
	}
	return b
}

// ExpectPanic asserts that f panics (documented contract).
func ExpectPanic(id string, f func()) {
	panicked := func() (p bool) {
		defer func() {
			if r := recover(); r != nil {
				if fl, ok := r.(Failure); ok {
					panic(fl)
				}
				p = true
			}
		}()
		f()
		return false
	}()
	Assert(panicked, id)
}

// Panics reports whether f panics.
func Panics(f func()) (p bool) {
	defer func() {
		if r := recover(); r != nil {
			if fl, ok := r.(Failure); ok {
				panic(fl)
			}
			p = true
		}
	}()
	f()
	return false
}

// T is the subset of testing.T used by Replay.
type T interface {
	Fatalf(format string, args ...any)
	Logf(format string, args ...any)
}

// Replay runs harness h natively under the replay vector and reports the outcome
// on lines the engine parses.
func Replay(t T, h func()) {
	defer func() {
		r := recover()
		if r == nil {
			fmt.Printf("VERIF-RESULT pass reached=%v\n", Reach)
			return
		}
		if f, ok := r.(Failure); ok {
			fmt.Printf("VERIF-RESULT %s id=%s\n", f.Kind, f.ID)
			t.Fatalf("VERIF %s %s", f.Kind, f.ID)
			return
		}
		fmt.Printf("VERIF-RESULT panic %v\n", r)
		t.Fatalf("VERIF panic: %v", r)
	}()
	h()
}
