package operator

import (
	"bytes"
	"time"

	"google.golang.org/protobuf/types/known/timestamppb"
	"reduction.dev/reduction/dkv"
	"reduction.dev/reduction/dkv/recovery"
	"reduction.dev/reduction/dkv/storage"
	"reduction.dev/reduction/partitioning"
	"reduction.dev/reduction/proto/workerpb"
	verif "reduction.dev/reduction/zz_verif"
)

type verifTimerRef struct {
	key  int   // index into keys
	secs int64 // timestamp, seconds
}

// verifTwoKeys finds one subject key per key group of a 2-group key space.
func verifTwoKeys(ks *partitioning.KeySpace) [][]byte {
	keys := make([][]byte, 2)
	for c := byte('a'); c <= 'z'; c++ {
		k := []byte{c}
		g := int(ks.KeyGroup(k))
		if keys[g] == nil {
			keys[g] = k
		}
	}
	return keys
}

var verifTimerTimes = []int64{10, 20, 30, 40}

type verifTimerEnv struct {
	db      *dkv.DB
	ks      *partitioning.KeySpace
	keys    [][]byte
	reg     *TimerRegistry
	senders []string
	wm      []int64 // latest watermark per sender (seconds; 0 = epoch = not reported)
	pending []verifTimerRef
	started bool // a watermark has been registered (before that the registry watermark is the zero time)
}

func verifNewTimerEnv(fs storage.FileSystem, handles []recovery.CheckpointHandle, cache uint64, nSenders int) *verifTimerEnv {
	e := &verifTimerEnv{}
	e.db = dkv.Open(dkv.DBOptions{FileSystem: fs, MemTableSize: 64, TargetFileSize: 128, L0TableNumCompactionTrigger: 2}, handles)
	e.ks = partitioning.NewKeySpace(2, 1)
	e.keys = verifTwoKeys(e.ks)
	kgRange := e.ks.KeyGroupRanges()[0]
	if verif.Param("SECOND", 0) == 1 {
		// the second of two operators: its key-group range [2,4) does not start at 0
		e.ks = partitioning.NewKeySpace(4, 2)
		kgRange = e.ks.KeyGroupRanges()[1]
		e.keys = make([][]byte, 2)
		for c := 0; c < 256; c++ {
			k := []byte{byte(c)}
			if g := int(e.ks.KeyGroup(k)) - kgRange.Start; g >= 0 && g < 2 && e.keys[g] == nil {
				e.keys[g] = k
			}
		}
	}
	e.senders = []string{"s1", "s2"}[:nSenders]
	e.reg = NewTimerRegistry(NewTimerStore(e.db, e.ks, kgRange, cache), e.senders)
	e.wm = make([]int64, nSenders)
	return e
}

// min watermark over senders as a (possibly symbolic) number of seconds
func (e *verifTimerEnv) minWM() int64 {
	m := e.wm[0]
	for _, w := range e.wm[1:] {
		m = verif.IteI64(w < m, w, m)
	}
	return m
}

func (e *verifTimerEnv) setTimer(key int, secs int64) {
	e.reg.SetTimer(e.keys[key], time.Unix(secs, 0))
	// no-op iff the timestamp is not after the operator watermark
	if e.started && !(e.minWM() < secs) {
		return
	}
	for _, p := range e.pending {
		if p.key == key && p.secs == secs {
			return // identical timer: not duplicated
		}
	}
	e.pending = append(e.pending, verifTimerRef{key, secs})
}

func (e *verifTimerEnv) advance(sender int, w int64, id string) {
	e.wm[sender] = w
	e.started = true
	min := e.minWM()
	var fired []verifTimerRef
	for k, t := range e.reg.AdvanceWatermark(e.senders[sender], &workerpb.Watermark{Timestamp: &timestamppb.Timestamp{Seconds: w}}) {
		ref := verifTimerRef{key: -1, secs: t.Unix()}
		for i, cand := range e.keys {
			if bytes.Equal(cand, k) {
				ref.key = i
			}
		}
		fired = append(fired, ref)
	}
	// every fired timer was pending, is due, fires once, in non-decreasing time order
	for i, f := range fired {
		verif.Assert(f.secs <= min, id+"-no-timer-later-than-the-minimum-watermark-fires")
		if i > 0 {
			verif.Assert(fired[i-1].secs <= f.secs, id+"-timers-fire-in-timestamp-order")
		}
		pos := -1
		for j, p := range e.pending {
			if p.key == f.key && p.secs == f.secs {
				pos = j
			}
		}
		verif.Assert(pos >= 0, id+"-fired-timer-was-pending-and-fires-once")
		if pos >= 0 {
			e.pending = append(e.pending[:pos:pos], e.pending[pos+1:]...)
		}
	}
	// nothing that is due stays behind
	for _, p := range e.pending {
		verif.Assert(p.secs > min, id+"-every-due-timer-fires")
	}
}

// Harness_C10_Registry: real TimerRegistry / TimerStore / partitioned priority queue / sorted
// cache over a real dkv.DB. K operations SetTimer(key in one of two key groups, t in
// {10,20,30}s) and AdvanceWatermark(sender, w) with w an arbitrary number of seconds in
// [0,40] (solver), cache sizes from "everything fits" down to one timer per key group,
// optionally a checkpoint/restore in the middle.
func Harness_C10_Registry() {
	verif.FixedRand(3, 1, 4, 1, 5, 9, 2, 6)
	verif.Abstract("bloom.Filter")
	root := storage.NewMemoryFilesystem()
	// per key group: unlimited, two timers (12 bytes each), one timer
	cache := []uint64{1 << 30, 2 * 25, 2 * 13}[verif.Choose("cache", verif.Param("CACHES", 3))]
	nSenders := verif.IntRange("senders", 1, verif.Param("SENDERS", 2))
	e := verifNewTimerEnv(root.WithWorkingDir("op1"), nil, cache, nSenders)
	k := verif.Param("K", 4)
	restoreAt := -1
	if verif.Param("RESTORE", 0) == 1 {
		restoreAt = verif.Choose("restore-at", k+1) - 1
	}
	for step := 0; step < k; step++ {
		if step == restoreAt {
			h, err := e.db.Checkpoint(1)()
			verif.Assert(err == nil, "checkpoint-succeeds")
			n := verifNewTimerEnv(root.WithWorkingDir("op2"), []recovery.CheckpointHandle{h}, cache, nSenders)
			n.pending = e.pending // pending timers survive; watermarks start over
			e = n
		}
		if verif.Choose("op", 2) == 0 {
			e.setTimer(verif.Choose("key", verif.Param("KEYS", 2)), verifTimerTimes[verif.Choose("t", verif.Param("TIMES", 4))])
		} else {
			w := verif.I64("w")
			verif.Assume(verif.And(w >= 0, w <= 50))
			e.advance(verif.Choose("sender", nSenders), w, "advance")
		}
	}
	// finally every sender passes every timer: all pending timers fire, each once
	for s := 0; s < nSenders; s++ {
		e.advance(s, 100, "final")
	}
	verif.Assert(len(e.pending) == 0, "final-nothing-pending-is-lost")
	verif.Reached()
}
