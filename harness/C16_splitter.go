//go:build verif

package kinesis

import (
	"context"
	"math/big"
	"time"

	"reduction.dev/reduction/connectors"
	"reduction.dev/reduction/proto/snapshotpb"
	"reduction.dev/reduction/proto/workerpb"
	verif "reduction.dev/reduction/zz_verif"
)

// Harness_C16_SplitterRestore: the real kinesis.SourceSplitter (Start, discovery ticker,
// NotifySplitsFinished, Checkpoint) over a stream whose shard listing is supplied by the
// harness (hook VerifListShards): a universe of up to N shards with a shape-chosen parent
// relation (splits and merges) that appear in id order. K operations: the stream grows / the
// discovery ticker fires / a source runner finishes an assigned shard / the splitter is
// checkpointed, closed and a new one is started from the checkpoint. A shard is never handed
// out while one of its parents is unfinished, never handed out twice by one splitter instance,
// and a restored splitter hands the unfinished assigned shards out again.
func Harness_C16_SplitterRestore() {
	n := verif.IntRange("shards", 2, verif.Param("N", 4))
	shards := make([]SourceSplitterShard, n)
	for i := range shards {
		shards[i] = SourceSplitterShard{ShardID: verifShardIDs[i], HashKeyRange: HashKeyRange{Start: big.NewInt(int64(i)), End: big.NewInt(int64(i + 1))}}
		if i >= 1 {
			switch verif.Choose("parents", 3) {
			case 1:
				shards[i].ParentIDs = []string{verifShardIDs[verif.Choose("p", i)]}
			case 2:
				if i >= 2 {
					shards[i].ParentIDs = []string{verifShardIDs[0], verifShardIDs[1]}
				}
			}
		}
	}
	listed := 1 // shards that exist in the stream so far (a prefix of the universe)
	VerifListShards = func(start string) []SourceSplitterShard {
		var out []SourceSplitterShard
		for _, s := range shards[:listed] {
			if s.ShardID > start { // ListShards with ExclusiveStartShardId
				out = append(out, s)
			}
		}
		return out
	}
	defer func() { VerifListShards = nil }()

	finished := make([]bool, n)
	handed := make([]int, n) // hand-outs by the current splitter instance
	everHanded := make([]bool, n)
	index := func(id string) int {
		for i, s := range verifShardIDs {
			if s == id {
				return i
			}
		}
		panic("unknown shard " + id)
	}
	onAssign := func(assignments map[string][]*workerpb.SourceSplit) {
		for _, splits := range assignments {
			for _, sp := range splits {
				i := index(sp.SplitId)
				handed[i]++
				everHanded[i] = true
				verif.Assert(handed[i] == 1, "shard-handed-out-once-per-splitter-instance")
				verif.Assert(!finished[i], "finished-shard-not-handed-out-again")
				for _, p := range shards[i].ParentIDs {
					verif.Assert(finished[index(p)], "child-shard-not-handed-out-before-its-parents-finished")
				}
			}
		}
	}
	errs := make(chan error, 4)
	newSplitter := func() *SourceSplitter {
		return &SourceSplitter{
			streamARN:              "arn",
			cursors:                map[string]string{},
			errChan:                errs,
			hooks:                  connectors.SourceSplitterHooks{AssignSplits: onAssign},
			sourceRunnerIDs:        []string{"r1", "r2"},
			splitTracker:           NewSplitTracker(),
			shardDiscoveryInterval: time.Hour,
			splitsDidFinish:        make(chan struct{}, 1),
			ctx:                    context.Background(),
		}
	}
	// the discovery ticker is replaced by a channel the harness sends on, so that discovery
	// happens exactly when the harness says so - under gosym and in a native replay alike
	var tick chan time.Time
	start := func(sp *SourceSplitter, ckpt *snapshotpb.SourceCheckpoint) error {
		if err := sp.Start(ckpt); err != nil {
			return err
		}
		verif.Quiesce()
		tick = make(chan time.Time)
		sp.shardDiscoveryTicker.Stop()
		sp.shardDiscoveryTicker = &time.Ticker{C: tick}
		sp.NotifySplitsFinished("r1", nil) // wakes the assignment loop: its next select reads the new channel
		verif.Quiesce()
		return nil
	}
	s := newSplitter()
	verif.Assert(start(s, nil) == nil, "start-succeeds")
	k := verif.Param("K", 5)
	for step := 0; step < k; step++ {
		switch verif.Choose("op", 4) {
		case 0:
			if listed < n {
				listed++
			}
		case 1:
			tick <- time.Time{}
		case 2:
			i := verif.Choose("finish", n)
			if handed[i] == 1 && !finished[i] {
				finished[i] = true
				s.NotifySplitsFinished("r1", []string{verifShardIDs[i]})
			}
		case 3:
			state := s.Checkpoint()
			s.Close()
			verif.Quiesce()
			before := make([]int, n)
			copy(before, handed)
			for i := range handed {
				handed[i] = 0
			}
			s = newSplitter()
			verif.Assert(start(s, &snapshotpb.SourceCheckpoint{SplitterState: state}) == nil, "restart-succeeds")
			for i := range before {
				if before[i] == 1 && !finished[i] {
					verif.Assert(handed[i] == 1, "restored-splitter-hands-unfinished-shards-out-again")
				}
			}
		}
		verif.Quiesce()
	}
	// eventually (discovery keeps ticking, runners finish what they were given) every shard of
	// the stream is handed out
	for round := 0; round < 2*n+2; round++ {
		tick <- time.Time{}
		verif.Quiesce()
		for i := 0; i < listed; i++ {
			if handed[i] == 1 && !finished[i] {
				finished[i] = true
				s.NotifySplitsFinished("r1", []string{verifShardIDs[i]})
				verif.Quiesce()
			}
		}
	}
	for i := 0; i < listed; i++ {
		verif.Assert(everHanded[i], "every-shard-of-the-stream-is-eventually-handed-out")
	}
	s.Close()
	verif.Reached()
}
