package snapshots

import (
	"bytes"
	"fmt"
	"io"
	"iter"
	"path/filepath"
	"sync"

	"google.golang.org/protobuf/proto"
	"reduction.dev/reduction/proto/snapshotpb"
	"reduction.dev/reduction/storage/locations"
	"reduction.dev/reduction/util/verifhook"
	verif "reduction.dev/reduction/zz_verif"
)

// verifLoc is an in-memory StorageLocation whose listing is in lexicographic path order
// (what filepath.WalkDir and S3 ListObjects yield). Every mutation is recorded.
type verifLoc struct {
	paths []string
	data  [][]byte
	log   []string
	// points: every write, listing and removal is a named scheduling point, so that storage
	// operations of concurrent goroutines can overtake one another (schedule mode 1)
	points bool
	mu     sync.Mutex
}

func (l *verifLoc) point() {
	if l.points {
		verifhook.Point("storage-op")
	}
}

func (l *verifLoc) find(p string) int {
	for i, q := range l.paths {
		if q == p {
			return i
		}
	}
	return -1
}

func (l *verifLoc) Write(path string, r io.Reader) (string, error) {
	b, err := io.ReadAll(r)
	if err != nil {
		return "", err
	}
	l.point()
	l.mu.Lock()
	defer l.mu.Unlock()
	l.log = append(l.log, "write "+path)
	if i := l.find(path); i >= 0 {
		l.data[i] = b
		return path, nil
	}
	l.paths = append(l.paths, path)
	l.data = append(l.data, b)
	return path, nil
}

func (l *verifLoc) Read(path string) ([]byte, error) {
	if i := l.find(path); i >= 0 {
		return l.data[i], nil
	}
	return nil, fmt.Errorf("%w: %s", locations.ErrNotFound, path)
}

func (l *verifLoc) List() iter.Seq2[string, error] {
	l.point()
	l.mu.Lock()
	defer l.mu.Unlock()
	// lexicographic order by path (a snapshot of the listing at the time of the call)
	paths := append([]string(nil), l.paths...)
	return verifListOf(paths)
}

func verifListOf(lpaths []string) iter.Seq2[string, error] {
	l := &verifLoc{paths: lpaths}
	idx := make([]int, len(l.paths))
	for i := range idx {
		idx[i] = i
	}
	for i := 1; i < len(idx); i++ {
		for j := i; j > 0 && l.paths[idx[j]] < l.paths[idx[j-1]]; j-- {
			idx[j], idx[j-1] = idx[j-1], idx[j]
		}
	}
	return func(yield func(string, error) bool) {
		for _, i := range idx {
			if !yield(l.paths[i], nil) {
				return
			}
		}
	}
}

func (l *verifLoc) URI(path string) (string, error) { return path, nil }

func (l *verifLoc) Copy(src, dst string) error {
	i := l.find(src)
	if i < 0 {
		return fmt.Errorf("%w: %s", locations.ErrNotFound, src)
	}
	l.log = append(l.log, "copy "+src+" "+dst)
	b := append([]byte(nil), l.data[i]...)
	if j := l.find(dst); j >= 0 {
		l.data[j] = b
		return nil
	}
	l.paths = append(l.paths, dst)
	l.data = append(l.data, b)
	return nil
}

func (l *verifLoc) Remove(paths ...string) error {
	l.point()
	l.mu.Lock()
	defer l.mu.Unlock()
	for _, p := range paths {
		if i := l.find(p); i >= 0 {
			l.log = append(l.log, "remove "+p)
			l.paths = append(l.paths[:i], l.paths[i+1:]...)
			l.data = append(l.data[:i], l.data[i+1:]...)
		}
	}
	return nil
}

var _ locations.StorageLocation = (*verifLoc)(nil)

func verifSnapshotFile(loc *verifLoc, id uint64) {
	snap := &snapshotpb.JobCheckpoint{Id: id, SourceCheckpoints: []*snapshotpb.SourceCheckpoint{{CheckpointId: id}}}
	data, err := proto.Marshal(snap)
	if err != nil {
		panic(err)
	}
	loc.Write(filepath.Join("checkpoints", "job-"+pathSegment(id)+".snapshot"), bytes.NewBuffer(data))
}

// Harness_C13_LoadLatest: whatever set of completed snapshot files (ids arbitrary, solver)
// is present, listed lexicographically, a restarting store loads the one with the highest
// id and hands out strictly larger ids afterwards. Unrelated files are ignored.
func Harness_C13_LoadLatest() {
	loc := &verifLoc{}
	n := verif.IntRange("files", 0, verif.Param("FILES", 2))
	ids := make([]uint64, n)
	var max uint64
	for i := range ids {
		ids[i] = verif.U64("id")
		verif.Assume(ids[i] < 1<<62)
		for j := 0; j < i; j++ {
			verif.Assume(ids[i] != ids[j])
		}
		max = verif.IteU64(ids[i] > max, ids[i], max)
	}
	loc.Write("checkpoints/README.txt", bytes.NewBufferString("x"))
	for _, id := range ids {
		verifSnapshotFile(loc, id)
	}
	loc.Write("savepoints/zz/job.savepoint", bytes.NewBufferString("x"))
	store := NewStore(&NewStoreParams{FileStore: loc, CheckpointsPath: "checkpoints", SavepointsPath: "savepoints"})
	err := store.LoadCheckpoint()
	verif.Assert(err == nil, "load-succeeds")
	cur := store.CurrentCheckpoint()
	if n == 0 {
		verif.Assert(cur == nil, "nothing-to-load")
	} else {
		verif.Assert(cur != nil, "loads-a-checkpoint")
		verif.Assert(cur.Id == max, "loads-highest-id")
	}
	next, err := store.CreateCheckpoint([]string{"o1"}, []string{"r1"})
	verif.Assert(err == nil, "create-after-load")
	verif.Assert(next > max, "ids-continue-above-loaded")
	verif.Reached()
}

