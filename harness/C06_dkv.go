package dkv

import (
	"bytes"

	"reduction.dev/reduction/dkv/kv"
	"reduction.dev/reduction/dkv/recovery"
	"reduction.dev/reduction/dkv/storage"
	verif "reduction.dev/reduction/zz_verif"
)

// verifOwner owns the keys whose two-byte big-endian key-group prefix lies in [lo,hi).
type verifOwner struct{ lo, hi int }

func (o *verifOwner) OwnsKey(key []byte) bool {
	g := int(key[0])<<8 | int(key[1])
	return g >= o.lo && g < o.hi
}
func (o *verifOwner) ExclusivelyOwnsTable(uri string, startKey, endKey []byte) (bool, error) {
	return false, nil
}

var _ kv.DataOwnership = (*verifOwner)(nil)

func verifGKey(group int, suffix byte) []byte { return []byte{0, byte(group), suffix} }

// Harness_C06_RestoreFilter: rescaling at the DKV level. M old databases, each owning a range of
// the 4 key groups and holding state in every depth (WAL only / level 0 / compacted deeper
// level, by shape; values arbitrary), checkpoint. N new databases are opened from the handles of
// the old databases whose range overlaps theirs, listed in ANY order (the job records them in
// acknowledgement order). Every new database must hold exactly the latest value of each key it
// owns, writes/deletes after the restore must take effect, and the new database must be able to
// take the next checkpoint, which in turn restores to the same state.
func Harness_C06_RestoreFilter() {
	verif.FixedRand(3, 1, 4, 1, 5, 9, 2, 6)
	verif.Abstract("bloom.Filter")
	root := storage.NewMemoryFilesystem()
	opts := func(fs storage.FileSystem, own kv.DataOwnership) DBOptions {
		return DBOptions{FileSystem: fs, MemTableSize: 20, TargetFileSize: 64, L0TableNumCompactionTrigger: 2, DataOwnership: own}
	}
	// old layout: M = 1 ([0,4)) or M = 2 ([0,2) and [2,4)); new layout: N = 1, 2 (two splits) or 3
	oldRanges := [][][2]int{{{0, 4}}, {{0, 2}, {2, 4}}}[verif.Choose("old-operators", 2)]
	// ... N = 3: the middle operator's range lies strictly inside the range of a table written by a single old operator
	newRanges := [][][2]int{{{0, 4}}, {{0, 2}, {2, 4}}, {{0, 1}, {1, 4}}, {{0, 1}, {1, 3}, {3, 4}}}[verif.Choose("new-operators", 4)]
	want := map[string][]byte{} // latest value per key; nil = deleted
	var keysWritten [][]byte
	var handles []recovery.CheckpointHandle
	for oi, r := range oldRanges {
		dir := []string{"old1", "old2"}[oi]
		db := Open(opts(root.WithWorkingDir(dir), &verifOwner{r[0], r[1]}), nil)
		// how deep the state has sunk: 0 = WAL only, 1 = one flush, 2 = two flushes + compaction
		depth := verif.Choose("depth", 3)
		writes := []int{1, 2, 5}[depth]
		for w := 0; w < writes; w++ {
			g := r[0] + w%(r[1]-r[0])
			k := verifGKey(g, byte('a'+w%2))
			v := verif.Bytes("v", 1)
			db.Put(k, v)
			if _, seen := want[string(k)]; !seen {
				keysWritten = append(keysWritten, k)
			}
			want[string(k)] = v
		}
		if depth == 2 {
			// and a delete that must stay deleted
			k := verifGKey(r[0], 'a')
			db.Delete(k)
			want[string(k)] = nil
		}
		if depth > 0 {
			verif.Assert(db.WaitOnTasks() == nil, "background-tasks-succeed")
		}
		h, err := db.Checkpoint(5)()
		verif.Assert(err == nil, "checkpoint-succeeds")
		handles = append(handles, h)
	}
	for ni, nr := range newRanges {
		// the old checkpoints overlapping the new range, in either recorded order
		var hs []recovery.CheckpointHandle
		for oi, or := range oldRanges {
			if or[0] < nr[1] && nr[0] < or[1] {
				hs = append(hs, handles[oi])
			}
		}
		if len(hs) == 2 && verif.Choose("recorded-order", 2) == 1 {
			hs[0], hs[1] = hs[1], hs[0]
		}
		own := &verifOwner{nr[0], nr[1]}
		db := Open(opts(root.WithWorkingDir([]string{"new1", "new2", "new3"}[ni]), own), hs)
		for _, k := range keysWritten {
			if !own.OwnsKey(k) {
				continue
			}
			e, err := db.Get(k)
			w := want[string(k)]
			if w == nil {
				verif.Assert(err == kv.ErrNotFound || (err == nil && e.IsDelete()), "deleted-key-stays-deleted-after-rescale")
			} else {
				verif.Assert(err == nil && !e.IsDelete() && bytes.Equal(e.Value(), w), "owned-key-restored-with-its-latest-value")
			}
		}
		// full scan: exactly the owned live keys (foreign keys may sit in shared tables but are
		// never asked for by the operator; owned keys must be complete and current)
		var scanErr error
		got := map[string][]byte{}
		for e := range db.ScanPrefix(nil, &scanErr) {
			if own.OwnsKey(e.Key()) {
				got[string(e.Key())] = e.Value()
			}
		}
		for _, k := range keysWritten {
			if own.OwnsKey(k) {
				w := want[string(k)]
				g, present := got[string(k)]
				if w == nil {
					verif.Assert(!present, "deleted-key-not-in-scan-after-rescale")
				} else {
					verif.Assert(present && bytes.Equal(g, w), "owned-key-in-scan-with-latest-value")
				}
			}
		}
		// writes after the restore take effect (sequence numbers continue above every loaded table)
		after := map[string][]byte{}
		for _, k := range keysWritten {
			if own.OwnsKey(k) {
				after[string(k)] = want[string(k)]
			}
		}
		for _, k := range keysWritten {
			if own.OwnsKey(k) {
				nv := verif.Bytes("nv", 1)
				db.Put(k, nv)
				after[string(k)] = nv
				e, err := db.Get(k)
				verif.Assert(err == nil && bytes.Equal(e.Value(), nv), "write-after-rescale-takes-effect")
				break
			}
		}
		verif.Assert(db.WaitOnTasks() == nil, "background-tasks-succeed")
		// the rescaled database takes the job's next checkpoint, and that checkpoint restores
		h2, err := db.Checkpoint(6)()
		verif.Assert(err == nil, "checkpoint-after-rescale-succeeds")
		db2 := Open(opts(root.WithWorkingDir([]string{"new1b", "new2b", "new3b"}[ni]), own), []recovery.CheckpointHandle{h2})
		for _, k := range keysWritten {
			if !own.OwnsKey(k) {
				continue
			}
			e, err := db2.Get(k)
			if w := after[string(k)]; w == nil {
				verif.Assert(err == kv.ErrNotFound || (err == nil && e.IsDelete()), "deleted-key-stays-deleted-in-the-next-checkpoint")
			} else {
				verif.Assert(err == nil && !e.IsDelete() && bytes.Equal(e.Value(), w), "next-checkpoint-after-rescale-restores-the-state")
			}
		}
	}
	verif.Reached()
}

// Harness_C06_RescaleTwice: a history that itself contains a rescaling. One database owning key
// groups [0,4) writes keys of every group and compacts them into a base table, checkpoints; two
// databases [0,2) and [2,4) are restored from it (both reference the shared table); each may
// delete one of its keys, overwrite another and flush/compact (by shape); both checkpoint; one
// database [0,4) is restored from the two handles in either order. It must hold exactly the
// latest value of every key - a key deleted by its owner stays deleted although the table both
// instances inherited still carries its old version.
func Harness_C06_RescaleTwice() {
	verif.FixedRand(3, 1, 4, 1, 5, 9, 2, 6)
	verif.Abstract("bloom.Filter")
	root := storage.NewMemoryFilesystem()
	// small memtables: every generation flushes and compacts; large: the whole history stays in
	// the write-ahead logs, which each restore replays through the ownership filter
	mem := uint64([]int{20, 1 << 16}[verif.Choose("memtable-size", 2)])
	opts := func(fs storage.FileSystem, own kv.DataOwnership) DBOptions {
		return DBOptions{FileSystem: fs, MemTableSize: mem, TargetFileSize: 1 << 16, L0TableNumCompactionTrigger: 2, DataOwnership: own}
	}
	want := map[string][]byte{}
	var keys [][]byte
	first := Open(opts(root.WithWorkingDir("gen0"), &verifOwner{0, 4}), nil)
	for g := 0; g < 4; g++ {
		k := verifGKey(g, 'a')
		v := verif.Bytes("v", 1)
		first.Put(k, v)
		keys = append(keys, k)
		want[string(k)] = v
	}
	verif.Assert(first.WaitOnTasks() == nil, "background-tasks-succeed")
	h0, err := first.Checkpoint(5)()
	verif.Assert(err == nil, "checkpoint-succeeds")
	verif.Assert(first.Close() == nil, "close-succeeds")

	ranges := [][2]int{{0, 2}, {2, 4}}
	var handles []recovery.CheckpointHandle
	for i, r := range ranges {
		own := &verifOwner{r[0], r[1]}
		db := Open(opts(root.WithWorkingDir([]string{"gen1a", "gen1b"}[i]), own), []recovery.CheckpointHandle{h0})
		if verif.Choose("owner-deletes-a-key", 2) == 1 {
			k := verifGKey(r[0], 'a')
			db.Delete(k)
			want[string(k)] = nil
		}
		// further writes so that the delete is flushed and - by shape - compacted into the base level
		extra := verif.Choose("further-writes", 4)
		for w := 0; w < extra; w++ {
			k := verifGKey(r[1]-1, byte('b'+w))
			v := verif.Bytes("v", 1)
			db.Put(k, v)
			if _, seen := want[string(k)]; !seen {
				keys = append(keys, k)
			}
			want[string(k)] = v
		}
		verif.Assert(db.WaitOnTasks() == nil, "background-tasks-succeed")
		h, err := db.Checkpoint(6)()
		verif.Assert(err == nil, "checkpoint-after-rescale-succeeds")
		handles = append(handles, h)
		verif.Assert(db.Close() == nil, "close-succeeds")
	}
	if verif.Choose("recorded-order", 2) == 1 {
		handles[0], handles[1] = handles[1], handles[0]
	}
	last := Open(opts(root.WithWorkingDir("gen2"), &verifOwner{0, 4}), handles)
	for _, k := range keys {
		e, err := last.Get(k)
		if w := want[string(k)]; w == nil {
			verif.Assert(err == kv.ErrNotFound || (err == nil && e.IsDelete()), "key-deleted-by-its-owner-stays-deleted-after-the-second-rescale")
		} else {
			verif.Assert(err == nil && !e.IsDelete() && bytes.Equal(e.Value(), w), "key-has-its-latest-value-after-the-second-rescale")
		}
	}
	var scanErr error
	got := map[string][]byte{}
	for e := range last.ScanPrefix(nil, &scanErr) {
		got[string(e.Key())] = e.Value()
	}
	verif.Assert(scanErr == nil, "scan-no-error")
	for _, k := range keys {
		g, present := got[string(k)]
		if w := want[string(k)]; w == nil {
			verif.Assert(!present, "deleted-key-not-in-scan-after-the-second-rescale")
		} else {
			verif.Assert(present && bytes.Equal(g, w), "scan-has-the-latest-value-after-the-second-rescale")
		}
	}
	verif.Reached()
}
