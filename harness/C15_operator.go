package operator

import (
	"context"

	"google.golang.org/protobuf/types/known/timestamppb"
	"reduction.dev/reduction/batching"
	"reduction.dev/reduction/clocks"
	"reduction.dev/reduction/proto/jobpb"
	"reduction.dev/reduction/proto/workerpb"
	verif "reduction.dev/reduction/zz_verif"
)

// Harness_C15_OperatorRedeploy: a surviving operator is redeployed (HandleDeploy again, same
// process) while a checkpoint alignment is in progress - a shape-chosen subset of its upstreams
// had delivered barrier 1. Afterwards barrier 2 from every upstream of the new assembly must be
// accepted and complete checkpoint 2, and events must be processed.
func Harness_C15_OperatorRedeploy() {
	verif.FixedRand(3, 1, 4, 1, 5, 9, 2, 6)
	verif.Abstract("bloom.Filter")
	job := &verifJob{}
	handler := &verifSumHandler{}
	ctx, cancel := context.WithCancel(context.Background())
	defer cancel()
	op := NewOperator(NewOperatorParams{ID: "op1", Host: "h", Job: job, UserHandler: handler,
		EventBatching: batching.EventBatcherParams{MaxSize: verif.IntRange("batch", 1, 2)}, Clock: clocks.NewFrozenClock()})
	go op.Start(ctx)
	verif.Quiesce()
	deploy := func(runners []string) {
		err := op.HandleDeploy(ctx, &workerpb.DeployOperatorRequest{
			Operators:       []*jobpb.NodeIdentity{{Id: "op1", Host: "h"}},
			SourceRunnerIds: runners,
			KeyGroupCount:   4,
			StorageLocation: "memory:///w",
		}, verifSink{})
		verif.Assert(err == nil, "deploy-succeeds")
	}
	deploy([]string{"s1", "s2"})
	verif.Assert(op.HandleEvent(ctx, "s1", verifKeyed([]byte("k1"), []byte{1}, 0)) == nil, "event-handled")

	// barrier 1 from a subset of the upstreams: the alignment stays open
	arrived := verif.Choose("barriers-before-redeploy", 3) // none, s1, s2
	if arrived > 0 {
		verif.Assert(op.HandleEvent(ctx, []string{"s1", "s2"}[arrived-1], verifBarrier(1)) == nil, "barrier-1-accepted")
	}
	verif.Assert(len(job.acks) == 0, "checkpoint-1-not-complete")

	// the job lost a member and redeploys every member, possibly with new source runners
	runners := [][]string{{"s1", "s2"}, {"s1", "s3"}, {"s3", "s4"}}[verif.Choose("new-upstreams", 3)]
	deploy(runners)

	verif.Assert(op.HandleEvent(ctx, runners[0], verifKeyed([]byte("k1"), []byte{2}, 1)) == nil, "event-handled-after-redeploy")
	done := make(chan error, 2)
	for _, r := range runners {
		r := r
		go func() { done <- op.HandleEvent(ctx, r, verifBarrier(2)) }()
	}
	verif.Quiesce()
	verif.Assert(len(done) == 2, "barrier-calls-of-the-new-assembly-return")
	for len(done) > 0 {
		verif.Assert(<-done == nil, "barrier-2-accepted-after-redeploy")
	}
	verif.Assert(len(job.acks) == 1 && job.acks[0].id == 2, "checkpoint-2-completes-after-redeploy")
	// events batched before the redeploy belong to the abandoned assembly: the new deployment
	// starts from the (here: empty) checkpoint and will be sent them again by its source runners
	for _, sn := range handler.seen {
		if sn.tag == 1 {
			verif.Assert(sn.state == nil, "redeployed-operator-starts-from-the-checkpoint-state")
		}
	}
	n0 := 0
	for _, sn := range handler.seen {
		if sn.tag == 0 {
			n0++
		}
	}
	verif.Assert(n0 <= 1, "event-of-the-old-deployment-not-applied-after-redeploy")
	if n0 == 1 {
		// it may only have been handled before the redeploy
		verif.Assert(handler.seen[0].tag == 0 && (len(handler.seen) < 2 || handlerCallOf(handler, 0) != handlerCallOf(handler, 1)), "event-of-the-old-deployment-not-applied-after-redeploy")
	}
	verif.Reached()
}

// handlerCallOf returns the index of the handler invocation that carried the event with the tag
// (invocations are identified by the position of their watermark record).
func handlerCallOf(h *verifSumHandler, tag int) int {
	for i, sn := range h.seen {
		if sn.tag == tag {
			return h.call[i]
		}
	}
	return -1
}

// Harness_C11_Redeploy: an operator that has been told advanced watermarks is redeployed in the
// same process (HandleDeploy again, possibly with new source runners). Every upstream of the
// new deployment counts as the epoch until it reports: a batch handled before any watermark
// message of the new deployment must be told nothing later than the epoch, and afterwards the minimum over the
// new upstreams' reports - for arbitrary watermark values.
func Harness_C11_Redeploy() {
	verif.FixedRand(3, 1, 4, 1, 5, 9, 2, 6)
	verif.Abstract("bloom.Filter")
	job := &verifJob{}
	handler := &verifSumHandler{}
	ctx, cancel := context.WithCancel(context.Background())
	defer cancel()
	op := NewOperator(NewOperatorParams{ID: "op1", Host: "h", Job: job, UserHandler: handler,
		EventBatching: batching.EventBatcherParams{MaxSize: 1}, Clock: clocks.NewFrozenClock()})
	go op.Start(ctx)
	verif.Quiesce()
	deploy := func(runners []string) {
		err := op.HandleDeploy(ctx, &workerpb.DeployOperatorRequest{
			Operators:       []*jobpb.NodeIdentity{{Id: "op1", Host: "h"}},
			SourceRunnerIds: runners,
			KeyGroupCount:   4,
			StorageLocation: "memory:///w",
		}, verifSink{})
		verif.Assert(err == nil, "deploy-succeeds")
	}
	wmEvent := func(sec int64) *workerpb.Event {
		return &workerpb.Event{Event: &workerpb.Event_Watermark{Watermark: &workerpb.Watermark{Timestamp: &timestamppb.Timestamp{Seconds: sec}}}}
	}
	told := func(sender string, tag int) *timestamppb.Timestamp {
		before := len(handler.watermark)
		verif.Assert(op.HandleEvent(ctx, sender, verifKeyed([]byte("k1"), []byte{1}, tag)) == nil, "event-handled")
		verif.Assert(len(handler.watermark) == before+1, "handler-invoked")
		if len(handler.watermark) != before+1 {
			return nil
		}
		return handler.watermark[before]
	}
	deploy([]string{"s1", "s2"})
	w1, w2 := verif.I64("w1"), verif.I64("w2")
	verif.Assume(verif.And(verif.And(w1 >= 1, w1 <= 1000), verif.And(w2 >= 1, w2 <= 1000)))
	verif.Assert(op.HandleEvent(ctx, "s1", wmEvent(w1)) == nil, "watermark-handled")
	verif.Assert(op.HandleEvent(ctx, "s2", wmEvent(w2)) == nil, "watermark-handled")
	if got := told("s1", 0); got != nil {
		verif.Assert(got.GetSeconds() == verif.IteI64(w1 < w2, w1, w2), "handler-told-the-minimum-upstream-watermark")
	}

	runners := [][]string{{"s1", "s2"}, {"s3", "s4"}}[verif.Choose("new-upstreams", 2)]
	deploy(runners)
	if got := told(runners[0], 1); got != nil {
		// (the registry starts at Go's zero time, which is before the epoch: never later than it)
		verif.Assert(got.GetSeconds() <= 0, "handler-told-nothing-later-than-the-epoch-before-the-new-upstreams-report")
	}
	w3 := verif.I64("w3")
	verif.Assume(verif.And(w3 >= 1, w3 <= 1000))
	verif.Assert(op.HandleEvent(ctx, runners[0], wmEvent(w3)) == nil, "watermark-handled")
	if got := told(runners[0], 2); got != nil {
		verif.Assert(got.GetSeconds() == 0, "unreported-upstream-still-counts-as-the-epoch")
	}
	w4 := verif.I64("w4")
	verif.Assume(verif.And(w4 >= 1, w4 <= 1000))
	verif.Assert(op.HandleEvent(ctx, runners[1], wmEvent(w4)) == nil, "watermark-handled")
	if got := told(runners[1], 3); got != nil {
		verif.Assert(got.GetSeconds() == verif.IteI64(w3 < w4, w3, w4), "handler-told-the-minimum-upstream-watermark")
	}
	verif.Reached()
}
