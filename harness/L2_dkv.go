package dkv

import (
	"bytes"

	"reduction.dev/reduction/dkv/kv"
	"reduction.dev/reduction/dkv/storage"
	verif "reduction.dev/reduction/zz_verif"
)

var verifKeys = [][]byte{[]byte("a"), []byte("ab"), []byte("b")}
var verifPrefixes = [][]byte{nil, []byte("a"), []byte("b")}

type verifModel struct {
	val  [][]byte // per key of verifKeys; nil = absent
	live []bool
}

func newVerifModel() *verifModel {
	return &verifModel{val: make([][]byte, len(verifKeys)), live: make([]bool, len(verifKeys))}
}

func (m *verifModel) clone() *verifModel {
	c := newVerifModel()
	copy(c.val, m.val)
	copy(c.live, m.live)
	return c
}

// verifCheckReads compares Get of every key and ScanPrefix of every prefix with the model.
func verifCheckReads(db *DB, m *verifModel, id string) {
	for i, k := range verifKeys {
		e, err := db.Get(k)
		if m.live[i] {
			verif.Assert(err == nil && e != nil && !e.IsDelete(), id+"-get-finds-live-key")
			if err == nil && e != nil && !e.IsDelete() {
				verif.Assert(bytes.Equal(e.Value(), m.val[i]), id+"-get-returns-latest-value")
			}
		} else {
			verif.Assert(err == kv.ErrNotFound || (err == nil && e.IsDelete()), id+"-get-reports-absent-or-deleted")
		}
	}
	for _, p := range verifPrefixes {
		var scanErr error
		var got []kv.Entry
		for e := range db.ScanPrefix(p, &scanErr) {
			got = append(got, e)
		}
		verif.Assert(scanErr == nil, id+"-scan-no-error")
		var want []int
		for i, k := range verifKeys { // verifKeys is in ascending order
			if m.live[i] && bytes.HasPrefix(k, p) {
				want = append(want, i)
			}
		}
		verif.Assert(len(got) == len(want), id+"-scan-yields-exactly-the-live-keys-with-prefix")
		if len(got) == len(want) {
			for j, i := range want {
				verif.Assert(bytes.Equal(got[j].Key(), verifKeys[i]), id+"-scan-in-key-order")
				verif.Assert(bytes.Equal(got[j].Value(), m.val[i]), id+"-scan-returns-latest-value")
			}
		}
	}
}

func verifOpenDB(fs storage.FileSystem) *DB {
	// table bloom filters are modelled by their contract (decided for the real filter by C17_Bloom)
	verif.Abstract("bloom.Filter")
	// an entry is 19 bytes: the memtable seals after every write (10), every second (20), third (40) or never
	memSize := []uint64{10, 20, 40, 1 << 20}[verif.Choose("memtable", verif.Param("MEMSIZES", 2))]
	// compaction after 2 or 3 level-0 tables
	trigger := 2 + verif.Choose("l0trigger", verif.Param("TRIGGERS", 2))
	// table size: large enough for every run, or so small that a merged run is split into several tables
	target := []uint64{64, 20}[verif.Choose("table-size", verif.Param("TARGETS", 2))]
	return Open(DBOptions{FileSystem: fs, MemTableSize: memSize, TargetFileSize: target, L0TableNumCompactionTrigger: trigger}, nil)
}

// verifStep applies one symbolic operation to db and model.
func verifStep(db *DB, m *verifModel) {
	op := verif.Choose("op", 2*len(verifKeys)+1)
	switch {
	case op < len(verifKeys):
		v := verif.Bytes("v", 1)
		db.Put(verifKeys[op], v)
		m.val[op], m.live[op] = v, true
	case op < 2*len(verifKeys):
		i := op - len(verifKeys)
		db.Delete(verifKeys[i])
		m.val[i], m.live[i] = nil, false
	default:
		// background flush and compaction run to completion
		verif.Assert(db.WaitOnTasks() == nil, "background-tasks-succeed")
	}
}

// Harness_C07_History: real dkv.DB on a MemoryFilesystem with a tiny memtable and table
// size, so that K operations (put / delete of keys a, ab, b with arbitrary values / "background
// work completes") pass through: active memtable only, sealed+active memtables with the flush
// still pending, level-0 tables, compacted levels. After every operation Get of every key and
// ScanPrefix of every prefix must equal a sequential map.
func Harness_C07_History() {
	verif.FixedRand(3, 1, 4, 1, 5, 9, 2, 6)
	fs := storage.NewMemoryFilesystem()
	db := verifOpenDB(fs)
	m := newVerifModel()
	k := verif.Param("K", 4)
	for step := 0; step < k; step++ {
		verifStep(db, m)
		verifCheckReads(db, m, "read")
	}
	verif.Assert(db.WaitOnTasks() == nil, "background-tasks-succeed")
	verifCheckReads(db, m, "settled")
	verif.Reached()
}

// Harness_C07_SwapWindow: the same history check with the background flush and compaction
// tasks interleaved with each other and with readers at the swap windows of dkv.DB (reader
// between its sstable snapshot and its memtable read; flush before it swaps its table in;
// compaction before it applies its change set). At each window the arriving goroutine either
// passes or waits until another goroutine has passed a window (hook-wait exploration). The
// memtable seals after every write and compaction triggers at two level-0 tables, so that K
// writes produce overlapping flushes and compactions.
func Harness_C07_SwapWindow() {
	verif.FixedRand(3, 1, 4, 1, 5, 9, 2, 6)
	verif.Abstract("bloom.Filter")
	verif.ScheduleMode(1, 0)
	fs := storage.NewMemoryFilesystem()
	db := Open(DBOptions{FileSystem: fs, MemTableSize: 10, TargetFileSize: 64, L0TableNumCompactionTrigger: 2}, nil)
	m := newVerifModel()
	k := verif.Param("K", 3)
	for step := 0; step < k; step++ {
		verifSwapStep(db, m)
		if verif.Choose("background-runs", 2) == 1 {
			// the background tasks run until each is done or waits at a swap window
			verif.Yield()
		}
		if step < k-verif.Param("R", 1) {
			continue
		}
		// one reader after each of the last R steps: a Get or a scan of one key
		i := 2 * verif.Choose("read-key", 2)
		if verif.Choose("read-is-scan", 2) == 1 {
			var scanErr error
			n := 0
			for e := range db.ScanPrefix(verifKeys[i], &scanErr) {
				if bytes.Equal(e.Key(), verifKeys[i]) {
					n++
					verif.Assert(m.live[i], "window-scan-yields-only-live-keys")
					if m.live[i] {
						verif.Assert(bytes.Equal(e.Value(), m.val[i]), "window-scan-returns-latest-value")
					}
				}
			}
			verif.Assert(scanErr == nil, "window-scan-no-error")
			if m.live[i] {
				verif.Assert(n == 1, "window-scan-finds-live-key")
			}
		} else {
			e, err := db.Get(verifKeys[i])
			if m.live[i] {
				verif.Assert(err == nil && e != nil && !e.IsDelete(), "window-get-finds-live-key")
				if err == nil && e != nil && !e.IsDelete() {
					verif.Assert(bytes.Equal(e.Value(), m.val[i]), "window-get-returns-latest-value")
				}
			} else {
				verif.Assert(err == kv.ErrNotFound || (err == nil && e.IsDelete()), "window-get-reports-absent-or-deleted")
			}
		}
	}
	verif.Assert(db.WaitOnTasks() == nil, "background-tasks-succeed")
	verif.ScheduleMode(0, 0)
	verifCheckReads(db, m, "settled")
	verif.Reached()
}

// verifSwapStep: put a / put b / delete a / background work completes.
func verifSwapStep(db *DB, m *verifModel) {
	switch verif.Choose("op", 4) {
	case 0:
		v := verif.Bytes("v", 1)
		db.Put(verifKeys[0], v)
		m.val[0], m.live[0] = v, true
	case 1:
		v := verif.Bytes("v", 1)
		db.Put(verifKeys[2], v)
		m.val[2], m.live[2] = v, true
	case 2:
		db.Delete(verifKeys[0])
		m.val[0], m.live[0] = nil, false
	default:
		verif.Assert(db.WaitOnTasks() == nil, "background-tasks-succeed")
	}
}
