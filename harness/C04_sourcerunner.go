package sourcerunner

import (
	"bytes"
	"context"
	"time"

	"google.golang.org/protobuf/types/known/timestamppb"
	"reduction.dev/reduction-protocol/handlerpb"
	"reduction.dev/reduction-protocol/jobconfigpb"
	"reduction.dev/reduction/batching"
	"reduction.dev/reduction/clocks"
	"reduction.dev/reduction/connectors"
	"reduction.dev/reduction/partitioning"
	"reduction.dev/reduction/proto"
	"reduction.dev/reduction/proto/jobpb"
	"reduction.dev/reduction/proto/workerpb"
	verif "reduction.dev/reduction/zz_verif"
)

// verifReader is a split reader over records 0..total-1; every ReadEvents waits for a permit
// from the harness that says how many records this read returns.
type verifReader struct {
	connectors.UnimplementedSourceReader
	pos     int
	total   int
	permits chan int
}

func (r *verifReader) ReadEvents() ([][]byte, error) {
	n := <-r.permits
	var out [][]byte
	for i := 0; i < n && r.pos < r.total; i++ {
		out = append(out, []byte{byte(r.pos)})
		r.pos++
	}
	if r.pos >= r.total {
		return out, connectors.ErrEndOfInput
	}
	return out, nil
}

func (r *verifReader) AssignSplits(splits []*workerpb.SourceSplit) error {
	for _, s := range splits {
		if len(s.Cursor) == 1 {
			r.pos = int(s.Cursor[0])
		}
	}
	return nil
}

func (r *verifReader) Checkpoint() [][]byte {
	// natively this widens the window in which a snapshot that is not taken on the reading
	// goroutine would observe later reads (under gosym the scheduler explores that order)
	verif.Yield()
	return [][]byte{{byte(r.pos)}}
}

type verifSRJob struct {
	proto.NoopJob
	cursors map[uint64]int
}

func (j *verifSRJob) OnSourceRunnerCheckpointComplete(ctx context.Context, req *jobpb.SourceRunnerCheckpointCompleteRequest) error {
	j.cursors[req.CheckpointId] = int(req.SplitStates[0][0])
	return nil
}

// verifKeyer is the user handler's key-by: record i becomes one keyed event for keyOf[i] with
// event time i+1 seconds.
type verifKeyer struct {
	keys  [][]byte
	keyOf []int
}

func (h *verifKeyer) ProcessEventBatch(ctx context.Context, req *handlerpb.ProcessEventBatchRequest) (*handlerpb.ProcessEventBatchResponse, error) {
	return &handlerpb.ProcessEventBatchResponse{}, nil
}

func (h *verifKeyer) KeyEventBatch(ctx context.Context, events [][]byte) ([][]*handlerpb.KeyedEvent, error) {
	out := make([][]*handlerpb.KeyedEvent, len(events))
	for i, e := range events {
		rec := int(e[0])
		out[i] = []*handlerpb.KeyedEvent{{Key: h.keys[h.keyOf[rec]], Value: e, Timestamp: &timestamppb.Timestamp{Seconds: int64(rec + 1)}}}
	}
	return out, nil
}

type verifDownstream struct {
	proto.UnimplementedOperator
	id     string
	stream []*workerpb.Event
}

func (o *verifDownstream) ID() string   { return o.id }
func (o *verifDownstream) Host() string { return "h" }
func (o *verifDownstream) HandleEventBatch(ctx context.Context, batch []*workerpb.Event) error {
	o.stream = append(o.stream, batch...)
	return nil
}

// Harness_C04_SourceRunner: a real SourceRunner (event loop, read channel, reorder fetcher,
// placeholder join, batching operators, router) reads a split of R records through reads whose
// sizes the harness chooses, keys them through the async key-by stage, and sends them to 1-2
// operators; checkpoints are started and the watermark ticker fires at harness-chosen moments
// between reads. Checked on the streams the operators receive: every record exactly once, at
// the operator that owns its key, per-key order = split order; barriers and watermarks never
// overtake records read before them; the cursor reported for checkpoint N equals the number of
// records that precede barrier N (C16); watermarks are monotone and below the newest forwarded
// event time (C11).
func Harness_C04_SourceRunner() {
	verif.ExploreSelect(verif.Param("SELECT", 1) == 1)
	if verif.Param("SCHED", 0) == 2 {
		// every order of the runner's goroutines at synchronisation operations (bounded pre-emptions)
		verif.ScheduleMode(2, verif.Param("PREEMPT", 1))
	}
	total := verif.Param("R", 3)
	keys := [][]byte{[]byte("k1"), []byte("k2"), []byte("k3")}
	keyer := &verifKeyer{keys: keys, keyOf: make([]int, total)}
	for i := range keyer.keyOf {
		keyer.keyOf[i] = verif.Choose("key", len(keys))
	}
	nOps := verif.IntRange("operators", 1, verif.Param("OPS", 2))
	downs := []*verifDownstream{{id: "o1"}, {id: "o2"}}[:nOps]
	job := &verifSRJob{cursors: map[uint64]int{}}
	reader := &verifReader{total: total, permits: make(chan int, 16)}
	ctx, cancel := context.WithCancel(context.Background())
	defer cancel()
	sr := New(NewParams{Host: "h", UserHandler: keyer, Job: job, Clock: clocks.NewFrozenClock(),
		OperatorFactory: func(senderID string, node *jobpb.NodeIdentity) proto.Operator {
			for _, d := range downs {
				if d.id == node.Id {
					return d
				}
			}
			return nil
		},
		SourceReaderFactory: func(*jobconfigpb.Source) connectors.SourceReader { return reader },
		// time-outs are short so that a native replay sees them expire; under gosym they expire when the harness says so
		EventBatching: batching.EventBatcherParams{MaxSize: verif.IntRange("batch", 1, verif.Param("BATCH", 2)), MaxDelay: 20 * time.Millisecond},
	})
	go sr.Start(ctx)
	verif.Quiesce()
	ids := make([]*jobpb.NodeIdentity, nOps)
	for i, d := range downs {
		ids[i] = &jobpb.NodeIdentity{Id: d.id, Host: "h"}
	}
	if err := sr.HandleDeploy(ctx, &workerpb.DeploySourceRunnerRequest{Operators: ids, KeyGroupCount: 8, Sources: []*jobconfigpb.Source{{}}}); err != nil {
		panic(err)
	}
	if err := sr.HandleAssignSplits([]*workerpb.SourceSplit{{SplitId: "only"}}); err != nil {
		panic(err)
	}
	verif.Quiesce()

	granted := 0
	nextCkpt := uint64(1)
	ticks, timeouts := 0, 0
	for granted < total {
		// what can still happen before the next read: a checkpoint start, a watermark tick
		var actions []int
		actions = append(actions, 0)
		// (the job starts the next checkpoint only after the previous request was taken: the request
		// channel holds one barrier, and the fake reader - unlike a real source - blocks its read
		// until the harness grants it, so a second request would block the harness itself)
		if nextCkpt <= uint64(verif.Param("CKPTS", 2)) && len(sr.checkpointBarrier) == 0 {
			actions = append(actions, 1)
		}
		if ticks < verif.Param("TICKS", 1) {
			actions = append(actions, 2)
		}
		if timeouts < verif.Param("TIMEOUTS", 1) {
			actions = append(actions, 3)
		}
		switch actions[verif.Choose("action", len(actions))] {
		case 0:
			n := 1 + verif.Choose("read-size", total-granted)
			reader.permits <- n
			granted += n
			// a second read may complete before the runner's other goroutines get to run
			if granted < total && verif.Choose("back-to-back-read", 2) == 1 {
				m := 1 + verif.Choose("read-size", total-granted)
				reader.permits <- m
				granted += m
			}
		case 1:
			sr.HandleStartCheckpoint(ctx, nextCkpt)
			nextCkpt++
			// the next read may already be possible while the runner deals with the request
			if verif.Choose("read-races-checkpoint", 2) == 1 {
				continue
			}
		case 2:
			verif.FireTickers()
			ticks++
		case 3:
			verif.FireTimers() // pending batch time-outs expire
			timeouts++
		}
		verif.Quiesce()
	}
	// a checkpoint may also be started after the last read
	if nextCkpt <= uint64(verif.Param("CKPTS", 2)) && len(sr.checkpointBarrier) == 0 && verif.Choose("final-checkpoint", 2) == 1 {
		sr.HandleStartCheckpoint(ctx, nextCkpt)
		verif.Quiesce()
	}
	reader.permits <- 0 // lets a trailing read observe the end of input
	verif.Quiesce()
	// eventually every batch time-out expires: nothing stays behind in a partial batch
	for i := 0; i < 4; i++ {
		verif.FireTimers()
		verif.Quiesce()
	}

	ks := partitioning.NewKeySpace(8, nOps)
	seen := make([]int, total)
	for oi, d := range downs {
		lastRec := -1
		recsBefore := 0 // records this operator received so far
		perKeyLast := map[string]int{}
		var lastWM *timestamppb.Timestamp
		maxTS := int64(0)
		for _, ev := range d.stream {
			switch t := ev.Event.(type) {
			case *workerpb.Event_KeyedEvent:
				rec := int(t.KeyedEvent.Value[0])
				seen[rec]++
				verif.Assert(ks.RangeIndex(t.KeyedEvent.Key) == oi, "record-delivered-to-the-operator-owning-its-key")
				verif.Assert(bytes.Equal(t.KeyedEvent.Key, keys[keyer.keyOf[rec]]), "record-keyed-as-the-handler-said")
				if p, ok := perKeyLast[string(t.KeyedEvent.Key)]; ok {
					verif.Assert(p < rec, "per-key-order-is-split-order")
				}
				perKeyLast[string(t.KeyedEvent.Key)] = rec
				verif.Assert(rec > lastRec, "records-in-split-order-at-each-operator")
				lastRec = rec
				recsBefore++
				if t.KeyedEvent.Timestamp.GetSeconds() > maxTS {
					maxTS = t.KeyedEvent.Timestamp.GetSeconds()
				}
			case *workerpb.Event_CheckpointBarrier:
				cur, ok := job.cursors[t.CheckpointBarrier.CheckpointId]
				verif.Assert(ok, "cursor-reported-before-the-barrier-is-sent")
				// exactly the records before the cursor precede the barrier at this operator
				want := 0
				for rec := 0; rec < cur; rec++ {
					if ks.RangeIndex(keys[keyer.keyOf[rec]]) == oi {
						want++
					}
				}
				verif.Assert(recsBefore == want, "barrier-cuts-the-stream-exactly-at-the-reported-cursor")
			case *workerpb.Event_Watermark:
				w := t.Watermark.Timestamp
				if lastWM != nil {
					verif.Assert(!w.AsTime().Before(lastWM.AsTime()), "watermark-never-decreases")
				}
				lastWM = w
				if nOps == 1 {
					// with one operator everything the runner forwarded went here: the watermark stays
					// below the largest event time forwarded before it (event times are rec+1 seconds)
					verif.Assert(w.AsTime().Before(time.Unix(maxTS, 0)) || (maxTS == 0 && !w.AsTime().After(time.Unix(0, 0))), "watermark-below-the-largest-event-time-forwarded-before-it")
				}
			}
		}
	}
	for rec := range seen {
		verif.Assert(seen[rec] == 1, "every-record-delivered-exactly-once")
	}
	verif.Reached()
}

// verifSlowDownstream is an operator whose first `hold` HandleEventBatch calls block until the
// harness releases them (back-pressure).
type verifSlowDownstream struct {
	proto.UnimplementedOperator
	hold   int
	gate   chan struct{}
	held   int // calls currently blocked
	stream []*workerpb.Event
}

func (o *verifSlowDownstream) ID() string   { return "o1" }
func (o *verifSlowDownstream) Host() string { return "h" }
func (o *verifSlowDownstream) HandleEventBatch(ctx context.Context, batch []*workerpb.Event) error {
	if o.hold > 0 {
		o.hold--
		o.held++
		<-o.gate
		o.held--
	}
	o.stream = append(o.stream, batch...)
	return nil
}

// verifManualTimer is a clocks.Timer whose expiry is driven by the harness (symbolically and natively).
type verifManualTimer struct {
	do func()
}

func (t *verifManualTimer) Set(d time.Duration, do func()) { t.do = do }
func (t *verifManualTimer) Stop()                          { t.do = nil }

func (t *verifManualTimer) fire() {
	if cb := t.do; cb != nil {
		t.do = nil
		go cb()
	}
}

// Harness_C04_BatchingOperator: the source runner's per-operator batching stage alone: N events
// are handed to it one after another while the operator behind it may be slow (its first calls
// block until released), batch time-outs expire at harness-chosen moments and the stage's
// select takes any ready case. The operator must receive every event exactly once, in the
// order they were handed over.
func Harness_C04_BatchingOperator() {
	verif.ExploreSelect(true)
	ctx, cancel := context.WithCancel(context.Background())
	defer cancel()
	down := &verifSlowDownstream{hold: verif.Choose("slow-calls", 1+verif.Param("HOLD", 1)), gate: make(chan struct{})}
	errs := make(chan error, 4)
	timer := &verifManualTimer{}
	bo := newBatchingOperator(ctx, down, batching.EventBatcherParams{MaxSize: verif.IntRange("batch", 1, 2), MaxDelay: time.Second, Timer: timer}, errs)
	n := verif.Param("N", 4)
	step := make(chan struct{})
	added := 0
	go func() {
		for i := 0; i < n; i++ {
			<-step
			bo.HandleEvent(&workerpb.Event{Event: &workerpb.Event_KeyedEvent{KeyedEvent: &handlerpb.KeyedEvent{Key: []byte("k"), Value: []byte{byte(i)}}}})
			added = i + 1
		}
	}()
	started, timeouts := 0, 0
	for started < n {
		var actions []int
		if added == started { // the previous hand-over returned
			actions = append(actions, 0)
		}
		if timer.do != nil && timeouts < verif.Param("TIMEOUTS", 2) {
			actions = append(actions, 1)
		}
		if down.held > 0 {
			actions = append(actions, 2)
		}
		if len(actions) == 0 {
			break
		}
		switch actions[verif.Choose("action", len(actions))] {
		case 0:
			started++
			step <- struct{}{}
		case 1:
			timer.fire()
			timeouts++
		case 2:
			down.gate <- struct{}{}
		}
		verif.Quiesce()
	}
	// the operator catches up and every time-out expires
	for i := 0; i < 6; i++ {
		if down.held > 0 {
			down.gate <- struct{}{}
		}
		timer.fire()
		verif.Quiesce()
	}
	verif.Assert(added == n, "every-hand-over-returns")
	verif.Assert(len(down.stream) == n, "every-event-delivered-exactly-once")
	for i, ev := range down.stream {
		verif.Assert(int(ev.GetKeyedEvent().Value[0]) == i, "events-delivered-in-hand-over-order")
	}
	verif.Reached()
}

// verifGenReader is a split reader whose records carry the deployment generation that read them.
type verifGenReader struct {
	connectors.UnimplementedSourceReader
	gen     byte
	pos     int
	total   int
	permits chan int
}

func (r *verifGenReader) ReadEvents() ([][]byte, error) {
	n := <-r.permits
	var out [][]byte
	for i := 0; i < n && r.pos < r.total; i++ {
		out = append(out, []byte{byte(r.pos), r.gen})
		r.pos++
	}
	if r.pos >= r.total {
		return out, connectors.ErrEndOfInput
	}
	return out, nil
}

func (r *verifGenReader) AssignSplits(splits []*workerpb.SourceSplit) error {
	for _, s := range splits {
		if len(s.Cursor) == 1 {
			r.pos = int(s.Cursor[0])
		}
	}
	return nil
}

func (r *verifGenReader) Checkpoint() [][]byte { return [][]byte{{byte(r.pos)}} }

// Harness_C04_RunnerRedeploy: a source runner that survives a recovery is deployed a second
// time in the same process, with the same or a different number of operators, and its split is
// assigned again from the checkpointed position (0 = no checkpoint yet, or everything read so
// far). The operators of the second deployment must receive exactly the records from that
// position on - each once, in split order, at the operator that owns its key under the new
// operator count - and nothing that the first deployment's reader produced.
func Harness_C04_RunnerRedeploy() {
	verif.ExploreSelect(verif.Param("SELECT", 0) == 1)
	total := verif.Param("R", 3)
	keys := [][]byte{[]byte("k1"), []byte("k2"), []byte("k3")}
	keyer := &verifKeyer{keys: keys, keyOf: make([]int, total)}
	for i := range keyer.keyOf {
		keyer.keyOf[i] = verif.Choose("key", len(keys))
	}
	n1 := verif.IntRange("operators-before", 1, 2)
	n2 := verif.IntRange("operators-after", 1, 3)
	first := []*verifDownstream{{id: "o1"}, {id: "o2"}}
	second := []*verifDownstream{{id: "o1"}, {id: "o2"}, {id: "o3"}}
	gens := [][]*verifDownstream{first[:n1], second[:n2]}
	readers := []*verifGenReader{
		{gen: 1, total: total, permits: make(chan int, 16)},
		{gen: 2, total: total, permits: make(chan int, 16)},
	}
	gen := 0
	job := &verifSRJob{cursors: map[uint64]int{}}
	ctx, cancel := context.WithCancel(context.Background())
	defer cancel()
	sr := New(NewParams{Host: "h", UserHandler: keyer, Job: job, Clock: clocks.NewFrozenClock(),
		OperatorFactory: func(senderID string, node *jobpb.NodeIdentity) proto.Operator {
			for _, d := range gens[gen] {
				if d.id == node.Id {
					return d
				}
			}
			return nil
		},
		SourceReaderFactory: func(*jobconfigpb.Source) connectors.SourceReader { return readers[gen] },
		EventBatching:       batching.EventBatcherParams{MaxSize: 1, MaxDelay: 20 * time.Millisecond},
	})
	go sr.Start(ctx)
	verif.Quiesce()
	deploy := func(cursor []byte) {
		ids := make([]*jobpb.NodeIdentity, len(gens[gen]))
		for i, d := range gens[gen] {
			ids[i] = &jobpb.NodeIdentity{Id: d.id, Host: "h"}
		}
		if err := sr.HandleDeploy(ctx, &workerpb.DeploySourceRunnerRequest{Operators: ids, KeyGroupCount: 8, Sources: []*jobconfigpb.Source{{}}}); err != nil {
			panic(err)
		}
		if err := sr.HandleAssignSplits([]*workerpb.SourceSplit{{SplitId: "only", Cursor: cursor}}); err != nil {
			panic(err)
		}
		verif.Quiesce()
	}
	deploy(nil)
	read1 := verif.Choose("records-read-before-the-recovery", total) // 0..total-1: the split is not finished
	if read1 > 0 {
		readers[0].permits <- read1
		verif.Quiesce()
	}
	// recovery: the job redeploys the surviving runner from its last completed checkpoint
	from := 0
	if verif.Choose("checkpoint-covers-what-was-read", 2) == 1 {
		from = read1
	}
	gen = 1
	deploy([]byte{byte(from)})
	// whatever still polls the old reader gets records too; the new reader delivers the rest
	readers[0].permits <- total
	readers[1].permits <- total
	verif.Quiesce()
	for i := 0; i < 4; i++ {
		verif.FireTimers()
		verif.Quiesce()
	}

	ks := partitioning.NewKeySpace(8, n2)
	seen := make([]int, total)
	stale := 0 // records produced by the first deployment's reader that reached the new operators
	for oi, d := range gens[1] {
		last := -1
		for _, ev := range d.stream {
			ke := ev.GetKeyedEvent()
			if ke == nil {
				continue
			}
			rec := int(ke.Value[0])
			if ke.Value[1] != 2 {
				stale++
				continue
			}
			seen[rec]++
			verif.Assert(ks.RangeIndex(ke.Key) == oi, "record-delivered-to-the-operator-owning-its-key")
			verif.Assert(rec > last, "records-in-split-order-at-each-operator")
			last = rec
		}
	}
	for rec := range seen {
		if rec >= from {
			verif.Assert(seen[rec] == 1, "every-record-from-the-checkpointed-position-delivered-exactly-once")
		} else {
			verif.Assert(seen[rec] == 0, "records-before-the-checkpointed-position-not-delivered-again")
		}
	}
	// F31 (fixed): HandleDeploy did not stop the previous deployment's loop, whose pending read of
	// the old reader was still keyed and routed - to the new operators
	if verif.Param("STALE", 1) == 1 { // not part of the routing property (C05 registration)
		verif.Assert(stale == 0, "no-record-of-the-previous-deployment-reaches-the-new-operators")
	}
	verif.Reached()
}

// verifSlowKeyer is the key-by stage with back-pressure: its first `hold` calls block until
// the harness releases them.
type verifSlowKeyer struct {
	verifKeyer
	hold    int
	waiting int
	gate    chan struct{}
}

func (h *verifSlowKeyer) KeyEventBatch(ctx context.Context, events [][]byte) ([][]*handlerpb.KeyedEvent, error) {
	if h.hold > 0 {
		h.hold--
		h.waiting++
		<-h.gate
		h.waiting--
	}
	return h.verifKeyer.KeyEventBatch(ctx, events)
}

// Harness_C04_BarrierUnderBackPressure: the runner's loop is busy (the key-by call of an
// earlier record is slow and the reorder buffer is full) while the source has more data and a
// checkpoint is started; then the key-by call returns. Whatever the loop picks next - the
// barrier or the next read - the barrier must cut the stream exactly at the position reported
// for the checkpoint, and every record arrives once and in order.
func Harness_C04_BarrierUnderBackPressure() {
	verif.ExploreSelect(true)
	total := verif.Param("R", 4)
	keys := [][]byte{[]byte("k1")}
	// every key-by call is held until the harness releases it (one at a time), so that a native
	// replay sees the same overlaps as the symbolic run
	keyer := &verifSlowKeyer{verifKeyer: verifKeyer{keys: keys, keyOf: make([]int, total)}, hold: total, gate: make(chan struct{})}
	down := &verifDownstream{id: "o1"}
	job := &verifSRJob{cursors: map[uint64]int{}}
	reader := &verifReader{total: total, permits: make(chan int, 16)}
	ctx, cancel := context.WithCancel(context.Background())
	defer cancel()
	sr := New(NewParams{Host: "h", UserHandler: keyer, Job: job, Clock: clocks.NewFrozenClock(),
		OperatorFactory:     func(senderID string, node *jobpb.NodeIdentity) proto.Operator { return down },
		SourceReaderFactory: func(*jobconfigpb.Source) connectors.SourceReader { return reader },
		EventBatching:       batching.EventBatcherParams{MaxSize: 1, MaxDelay: 20 * time.Millisecond},
	})
	go sr.Start(ctx)
	verif.Quiesce()
	if err := sr.HandleDeploy(ctx, &workerpb.DeploySourceRunnerRequest{Operators: []*jobpb.NodeIdentity{{Id: "o1", Host: "h"}}, KeyGroupCount: 8, Sources: []*jobconfigpb.Source{{}}}); err != nil {
		panic(err)
	}
	if err := sr.HandleAssignSplits([]*workerpb.SourceSplit{{SplitId: "only"}}); err != nil {
		panic(err)
	}
	verif.Quiesce()
	first := 1 + verif.Choose("first-read", 2)
	reader.permits <- first // the key-by call of the first record blocks; with two records the loop blocks too
	verif.Quiesce()
	// while the loop is busy: more data is available at the source and a checkpoint is started
	second := 1 + verif.Choose("second-read", total-first)
	order := verif.Choose("what-comes-first", 2)
	if order == 0 {
		reader.permits <- second
		verif.Quiesce()
		sr.HandleStartCheckpoint(ctx, 1)
	} else {
		sr.HandleStartCheckpoint(ctx, 1)
		verif.Quiesce()
		reader.permits <- second
	}
	verif.Quiesce()
	for keyer.waiting > 0 {
		keyer.gate <- struct{}{}
		verif.Quiesce()
	}
	reader.permits <- total
	reader.permits <- 0
	verif.Quiesce()
	for i := 0; i < 4*total; i++ {
		if keyer.waiting > 0 {
			keyer.gate <- struct{}{}
		}
		verif.FireTimers()
		verif.Quiesce()
	}
	recs, last := 0, -1
	sawBarrier := false
	for _, ev := range down.stream {
		switch t := ev.Event.(type) {
		case *workerpb.Event_KeyedEvent:
			rec := int(t.KeyedEvent.Value[0])
			verif.Assert(rec == last+1, "records-once-and-in-split-order")
			last = rec
			recs++
		case *workerpb.Event_CheckpointBarrier:
			cur, ok := job.cursors[t.CheckpointBarrier.CheckpointId]
			verif.Assert(ok, "cursor-reported-before-the-barrier-is-sent")
			verif.Assert(recs == cur, "barrier-cuts-the-stream-exactly-at-the-reported-cursor")
			sawBarrier = true
		}
	}
	verif.Assert(sawBarrier, "barrier-forwarded")
	verif.Assert(recs == total, "every-record-delivered-exactly-once")
	verif.Reached()
}
