package sst

import (
	"bytes"
	"slices"

	"reduction.dev/reduction/dkv/kv"
	"reduction.dev/reduction/dkv/storage"
	verif "reduction.dev/reduction/zz_verif"
)

type verifEntry = Entry

func verifCheckGet(t *Table, q []byte, es []*verifEntry, id string) {
	got, err := t.Get(q)
	var want *verifEntry
	for _, e := range es {
		if bytes.Equal(e.key, q) {
			want = e
		}
	}
	if want == nil {
		verif.Assert(err == kv.ErrNotFound, id+"-absent-key-not-found")
		return
	}
	verif.Assert(err == nil, id+"-present-key-found")
	if err == nil {
		verif.Assert(bytes.Equal(got.Key(), want.key), id+"-key")
		verif.Assert(got.SeqNum() == want.seqNum, id+"-seq")
		verif.Assert(got.IsDelete() == want.isDelete, id+"-tombstone")
		if !want.isDelete {
			verif.Assert(bytes.Equal(got.Value(), want.value), id+"-value")
		}
	}
}

func verifCheckScan(t *Table, p []byte, es []*verifEntry, id string) {
	var scanErr error
	var got []kv.Entry
	for e := range t.ScanPrefix(p, &scanErr) {
		got = append(got, e)
	}
	verif.Assert(scanErr == nil, id+"-scan-no-error")
	var want []*verifEntry
	for _, e := range es {
		if bytes.HasPrefix(e.key, p) {
			want = append(want, e)
		}
	}
	verif.Assert(len(got) == len(want), id+"-scan-yields-exactly-the-entries-with-prefix")
	if len(got) == len(want) {
		for i := range want {
			verif.Assert(bytes.Equal(got[i].Key(), want[i].key) && got[i].SeqNum() == want[i].seqNum && got[i].IsDelete() == want[i].isDelete, id+"-scan-entry")
			if !want[i].isDelete {
				verif.Assert(bytes.Equal(got[i].Value(), want[i].value), id+"-scan-value")
			}
		}
	}
}

func verifEntries(n, keyLen, valLen int) []*verifEntry {
	es := make([]*verifEntry, n)
	for i := range es {
		e := &verifEntry{key: verif.Bytes("key", verif.IntRange("klen", 0, keyLen)), seqNum: verif.U64("seq"), isDelete: verif.Bool("del")}
		if i > 0 {
			verif.Assume(bytes.Compare(es[i-1].key, e.key) < 0)
		}
		if !e.isDelete {
			e.value = verif.Bytes("val", verif.IntRange("vlen", 0, valLen))
		}
		es[i] = e
	}
	return es
}

func verifSeq(es []*verifEntry) func(func(kv.Entry) bool) {
	return func(yield func(kv.Entry) bool) {
		for _, e := range es {
			if !yield(e) {
				return
			}
		}
	}
}

// Harness_C17_TableSmall: any key-ordered run of up to N entries (puts and tombstones, empty
// and arbitrary binary keys/values) written as one table is read back entry for entry by
// Get(q) for an arbitrary q and ScanPrefix(p) for an arbitrary p, both on the written table
// and on the table re-opened from its descriptor. The bloom filter is modelled by its
// contract (decided for the real filter by C17_Bloom).
func Harness_C17_TableSmall() {
	verif.Abstract("bloom.Filter")
	fs := storage.NewMemoryFilesystem()
	n := verif.IntRange("entries", 0, verif.Param("N", 2))
	es := verifEntries(n, verif.Param("KL", 2), verif.Param("VL", 1))
	tw := NewTableWriter(fs, 0)
	t, err := tw.Write(verifSeq(es))
	verif.Assert(err == nil, "write-succeeds")
	if n > 0 {
		verif.Assert(bytes.Equal(t.startKey, es[0].key) && bytes.Equal(t.endKey, es[n-1].key), "range-is-first-and-last-key")
		lo, hi := false, false
		for _, e := range es {
			verif.Assert(t.startSeqNum <= e.seqNum && e.seqNum <= t.endSeqNum, "seq-bounds-cover-every-entry")
			lo = verif.Or(lo, t.startSeqNum == e.seqNum)
			hi = verif.Or(hi, t.endSeqNum == e.seqNum)
		}
		verif.Assert(verif.And(lo, hi), "seq-bounds-are-attained")
		for _, e := range es {
			verif.Assert(t.filter.MightHave(e.key), "bloom-never-denies-present-key")
		}
	}
	q := verif.Bytes("q", verif.IntRange("qlen", 0, verif.Param("KL", 2)))
	p := verif.Bytes("p", verif.IntRange("plen", 0, 1))
	tables := []*Table{t, NewTableFromDocument(fs, nil, t.Document())}
	which := verif.Choose("reopened", 2)
	tt := tables[which]
	id := []string{"written", "reopened"}[which]
	if verif.Bool("bloom-false-positive") {
		// a false positive of the filter for the lookup key (as a hash collision would cause)
		tt.ensureMetadataLoaded()
		tt.filter.Add(q)
	}
	verifCheckGet(tt, q, es, id)
	verifCheckScan(tt, p, es, id)
	verif.Reached()
}

// Harness_C17_TableIndex: tables of 17..E entries (the sparse index, one offset per 16
// entries, then has 2-3 offsets) with concrete even keys; lookup key q is arbitrary (two
// bytes): present, absent between entries, before the first and after the last entry, with
// and without a bloom-filter false positive for the lookup key.
func Harness_C17_TableIndex() {
	verif.Abstract("bloom.Filter")
	fs := storage.NewMemoryFilesystem()
	n := []int{17, 32, 33, 34}[verif.Choose("entries", verif.Param("SIZES", 2))]
	es := make([]*verifEntry, n)
	for i := range es {
		k := 2*i + 2
		// tombstones at a fixed pattern: every third entry, the first entry of the second index block, the last entry
		es[i] = &verifEntry{key: []byte{byte(k >> 8), byte(k)}, seqNum: uint64(i + 1), isDelete: i%3 == 1 || i == 16 || i == n-1}
		if !es[i].isDelete {
			es[i].value = []byte{byte(i)}
		}
	}
	tw := NewTableWriter(fs, 0)
	t, err := tw.Write(verifSeq(es))
	verif.Assert(err == nil, "write-succeeds")
	q := verif.Bytes("q", 2)
	tt := t
	if verif.Choose("reopened", 2) == 1 {
		tt = NewTableFromDocument(fs, nil, t.Document())
	}
	if verif.Bool("bloom-false-positive") {
		tt.ensureMetadataLoaded()
		tt.filter.Add(q)
	}
	got, gerr := tt.Get(q)
	present := false
	for i, e := range es {
		eq := bytes.Equal(e.key, q)
		present = verif.Or(present, eq)
		if eq { // forks once per entry; only the matching entry constrains the result
			verif.Assert(gerr == nil, "present-key-found")
			if gerr == nil {
				verif.Assert(got.SeqNum() == uint64(i+1) && got.IsDelete() == e.isDelete, "found-entry-is-the-written-one")
				if !e.isDelete {
					verif.Assert(bytes.Equal(got.Value(), e.value), "found-value")
				}
			}
		}
	}
	if !present {
		verif.Assert(gerr == kv.ErrNotFound, "absent-key-not-found")
	}
	verif.Reached()
}

// Harness_C17_WriteRun: a run of entries whose encoded sizes straddle the target and the
// 1.5x look-ahead is split into tables whose concatenation is the run, with disjoint,
// ascending key ranges.
func Harness_C17_WriteRun() {
	verif.Abstract("bloom.Filter")
	fs := storage.NewMemoryFilesystem()
	target := uint64(60)
	n := verif.IntRange("entries", 0, verif.Param("N", 4))
	es := make([]*verifEntry, n)
	for i := range es {
		// value lengths chosen around target (60) and 1.5*target (90): entry size = 17+1+vlen
		vlen := []int{0, 12, 41, 42, 43, 71, 72, 100}[verif.Choose("vlen", verif.Param("VLENS", 8))]
		es[i] = &verifEntry{key: []byte{byte(i + 1)}, seqNum: verif.U64("seq"), isDelete: false, value: make([]byte, vlen)}
		if vlen > 0 {
			es[i].value[0] = verif.Byte("v0")
		}
	}
	tw := NewTableWriter(fs, 0)
	tables, err := tw.WriteRun(verifSeq(es), target)
	verif.Assert(err == nil, "write-run-succeeds")
	var back []kv.Entry
	for ti, t := range tables {
		var scanErr error
		cnt := 0
		for e := range t.ScanPrefix(nil, &scanErr) {
			back = append(back, e)
			cnt++
		}
		verif.Assert(scanErr == nil, "scan-no-error")
		if cnt > 0 && ti > 0 && len(tables[ti-1].endKey) > 0 {
			verif.Assert(bytes.Compare(tables[ti-1].endKey, t.startKey) < 0, "table-ranges-disjoint-and-ascending")
		}
		if cnt > 0 {
			verif.Assert(bytes.Compare(t.startKey, t.endKey) <= 0, "table-range-well-formed")
		}
	}
	verif.Assert(len(back) == n, "concatenation-has-every-entry-once")
	if len(back) == n {
		for i, e := range es {
			verif.Assert(bytes.Equal(back[i].Key(), e.key) && back[i].SeqNum() == e.seqNum && bytes.Equal(back[i].Value(), e.value), "concatenation-equals-run")
		}
	}
	_ = slices.Values[[]int]
	verif.Reached()
}
