package sliceu

import (
	verif "reduction.dev/reduction/zz_verif"
)

func verifCmpInt(a, b int) int {
	if a < b {
		return -1
	}
	if a > b {
		return 1
	}
	return 0
}

// Harness_C19_SearchUnique: for every strictly ascending slice of length n ≤ N and
// every target, SearchUnique finds the target iff it is present and returns its index.
func Harness_C19_SearchUnique() {
	n := verif.IntRange("n", 0, verif.Param("N", 5))
	xs := make([]int, n)
	for i := range xs {
		xs[i] = verif.Int("x")
	}
	for i := 1; i < n; i++ {
		verif.Assume(xs[i-1] < xs[i])
	}
	t := verif.Int("t")
	idx, ok := SearchUnique(xs, t, verifCmpInt)
	want := false
	for _, x := range xs {
		want = verif.Or(want, x == t)
	}
	verif.Assert(verif.Iff(ok, want), "found-iff-present")
	if ok {
		verif.Assert(xs[idx] == t, "index-points-at-target")
	}
	verif.Reached()
}
