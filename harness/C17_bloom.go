package bloom

import (
	"bytes"

	"reduction.dev/reduction/dkv/storage"
	verif "reduction.dev/reduction/zz_verif"
)

// Harness_C17_Bloom: the filter never denies a key that was added, whatever else was added
// afterwards and whatever the hash function returns (murmur is abstracted to an arbitrary
// function); Encode/Decode preserves size, hash count and every word of the bit array.
func Harness_C17_Bloom() {
	verif.Abstract("reduction.dev/reduction/util/murmur.Hash")
	size := []uint32{1, 64, 128, 65, 7, 100}[verif.Choose("size", verif.Param("SIZES", 6))]
	hashes := []int{1, 2, 5}[verif.Choose("hashes", 3)]
	f := NewFilter(size, hashes)
	n := verif.IntRange("keys", 1, verif.Param("KEYS", 2))
	keys := make([][]byte, n)
	for i := range keys {
		keys[i] = verif.Bytes("k", verif.IntRange("klen", 0, 2))
		f.Add(keys[i])
		for j := 0; j <= i; j++ {
			verif.Assert(f.MightHave(keys[j]), "added-key-never-denied")
		}
	}
	// persistence: arbitrary bit array
	for i := range f.bitArray {
		f.bitArray[i] = verif.U64("word")
	}
	fs := storage.NewMemoryFilesystem()
	file := fs.New("bloom")
	w := f.Encode(file)
	verif.Assert(w == 8+8*len(f.bitArray), "encoded-size")
	if err := file.Save(); err != nil {
		panic(err)
	}
	g := Decode(&storage.Cursor{File: file})
	verif.Assert(g.size == f.size && g.hashCount == f.hashCount && len(g.bitArray) == len(f.bitArray), "decode-preserves-parameters")
	for i := range f.bitArray {
		verif.Assert(g.bitArray[i] == f.bitArray[i], "decode-preserves-bits")
	}
	_ = bytes.Equal
	verif.Reached()
}
