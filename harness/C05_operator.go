package operator

import (
	"context"

	"reduction.dev/reduction/batching"
	"reduction.dev/reduction/clocks"
	"reduction.dev/reduction/partitioning"
	"reduction.dev/reduction/proto"
	"reduction.dev/reduction/proto/jobpb"
	"reduction.dev/reduction/proto/workerpb"
	verif "reduction.dev/reduction/zz_verif"
)

// Harness_C05_OperatorRedeploy: one operator process deployed twice (a recovery in which the
// process survives): first into an assembly of M operators, then into one of N operators, at an
// arbitrary position each time, with the same or another key-group count. After every deployment
// the range the operator owns and the key space it encodes state under are those of the key
// space a source runner builds for the same configuration; a key the router sends it is
// processed and its state is found again under the key.
func Harness_C05_OperatorRedeploy() {
	verif.FixedRand(3, 1, 4, 1, 5, 9, 2, 6)
	verif.Abstract("bloom.Filter")
	job := &verifJob{}
	handler := &verifSumHandler{}
	ctx, cancel := context.WithCancel(context.Background())
	defer cancel()
	op := NewOperator(NewOperatorParams{ID: "op1", Host: "h", Job: job, UserHandler: handler,
		EventBatching: batching.EventBatcherParams{MaxSize: 1}, Clock: clocks.NewFrozenClock(),
		NeighborOperatorFactory: func(string, *jobpb.NodeIdentity) proto.Operator { return nil }})
	go op.Start(ctx)
	verif.Quiesce()
	keys := [][]byte{[]byte("a"), []byte("b"), []byte("c"), []byte("d"), []byte("e"), []byte("f"), []byte("g"), []byte("h")}
	tag := 0
	deploy := func(round, groups int) {
		n := verif.IntRange("operators", 1, 3)
		idx := verif.Choose("own-position", n)
		ops := make([]*jobpb.NodeIdentity, n)
		others := []string{"opA", "opB"}
		for i := range ops {
			if i == idx {
				ops[i] = &jobpb.NodeIdentity{Id: "op1", Host: "h"}
			} else {
				ops[i] = &jobpb.NodeIdentity{Id: others[0], Host: "h"}
				others = others[1:]
			}
		}
		err := op.HandleDeploy(ctx, &workerpb.DeployOperatorRequest{
			Operators:       ops,
			SourceRunnerIds: []string{"s1"},
			KeyGroupCount:   int32(groups),
			StorageLocation: []string{"memory:///w1", "memory:///w2"}[round],
		}, verifSink{})
		verif.Assert(err == nil, "deploy-succeeds")
		router := partitioning.NewKeySpace(groups, n) // what every source runner of the assembly builds
		verif.Assert(op.keyGroupRange == router.KeyGroupRanges()[idx], "operator-owns-the-range-the-router-assigns-to-its-position")
		verif.Assert(len(op.keySpace.KeyGroupRanges()) == n, "operator-key-space-has-one-range-per-operator")
		for _, k := range keys {
			verif.Assert(op.keySpace.KeyGroup(k) == router.KeyGroup(k), "operator-and-router-map-the-key-to-the-same-group")
			verif.Assert(op.keySpace.RangeIndex(k) == router.RangeIndex(k), "operator-and-router-agree-on-the-owner-of-the-key")
			verif.Assert((router.RangeIndex(k) == idx) == op.keyGroupRange.IncludesKeyGroup(router.KeyGroup(k)), "operator-owns-exactly-the-keys-routed-to-it")
			if router.RangeIndex(k) == idx {
				verif.Assert(op.HandleEvent(ctx, "s1", verifKeyed(k, []byte{1}, tag)) == nil, "routed-event-handled")
				tag++
				verif.Assert(verifSumOf(op.stateStore, k) != nil, "state-of-a-routed-key-found-under-the-key")
			}
		}
	}
	groups := []int{4, 5, 256}[verif.Choose("key-groups", 3)]
	deploy(0, groups)
	if verif.Choose("key-group-count-changes", 2) == 1 {
		groups = []int{5, 4, 7}[verif.Choose("new-key-groups", 3)]
	}
	deploy(1, groups)
	verif.Reached()
}
