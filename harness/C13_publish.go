package snapshots

import (
	"reduction.dev/reduction/proto/jobpb"
	"reduction.dev/reduction/proto/snapshotpb"
	verif "reduction.dev/reduction/zz_verif"
)

// Harness_C13_PublishOverlap: CKPTS consecutive job checkpoints are completed on a real Store
// (1 operator, 1 source runner) without waiting for the asynchronous publication of the
// previous one; every relative order of the asynchronous write, delete and notify steps is
// explored (MODE=2: every synchronisation operation with bounded pre-emptions; MODE=1: the
// storage operations - write, list, remove - of concurrent goroutines overtake one another). When everything has settled the newest
// completed checkpoint must be the current one, its file must be in storage, the last
// retention notice delivered must name it, and a restarted store must load it.
func Harness_C13_PublishOverlap() {
	loc := &verifLoc{}
	if verif.Param("MODE", 2) == 1 {
		// storage operations of concurrent goroutines overtake one another; otherwise deterministic
		verif.ScheduleMode(1, 0)
		loc.points = true
	} else {
		verif.ScheduleMode(2, verif.Param("PREEMPT", 2))
	}
	retained := make(chan []uint64) // unbuffered, drained by one consumer, as in the job
	store := verifNewStore(loc, retained)
	var delivered []uint64
	go func() {
		for r := range retained {
			delivered = append(delivered, r[len(r)-1])
		}
	}()
	n := verif.Param("CKPTS", 3)
	for c := 1; c <= n; c++ {
		id, err := store.CreateCheckpoint([]string{"o1"}, []string{"r1"})
		verif.Assert(err == nil && id == uint64(c), "checkpoint-created")
		verif.Assert(store.AddOperatorSnapshot(&snapshotpb.OperatorCheckpoint{CheckpointId: id, OperatorId: "o1", DkvFileUri: "dkv/o1/checkpoints"}) == nil, "operator-ack-accepted")
		verif.Assert(store.AddSourceSnapshot(&jobpb.SourceRunnerCheckpointCompleteRequest{CheckpointId: id, SourceRunnerId: "r1", SplitStates: [][]byte{{byte(c)}}}) == nil, "runner-ack-accepted")
		if verif.Choose("publication-settles-before-the-next-checkpoint", 2) == 1 {
			verif.Quiesce()
		}
		if verif.Param("ASSEMBLY", 1) == 1 && verif.Choose("new-assembly-before-the-next-checkpoint", 2) == 1 {
			// the job starts a new assembly (Job.start): nothing is pending, a new splitter registers
			store.AbandonPendingCheckpoint()
			store.RegisterSourceSplitter(&verifSplitter{state: []byte("splitter")})
		}
	}
	verif.Quiesce()
	// every delayed step runs to completion
	verif.ScheduleMode(0, 0)
	verif.Quiesce()
	newest := uint64(n)
	cur := store.CurrentCheckpoint()
	verif.Assert(cur != nil && cur.Id == newest, "current-checkpoint-is-the-newest-completed-one")
	verif.Assert(loc.find("checkpoints/job-"+pathSegment(newest)+".snapshot") >= 0, "newest-completed-checkpoint-file-never-removed")
	if len(delivered) > 0 {
		verif.Assert(delivered[len(delivered)-1] == newest, "last-retention-notice-names-the-newest-checkpoint")
	}
	loc.points = false
	restarted := verifNewStore(loc, nil)
	verif.Assert(restarted.LoadCheckpoint() == nil, "load-succeeds")
	rc := restarted.CurrentCheckpoint()
	verif.Assert(rc != nil && rc.Id == newest, "restart-recovers-the-newest-completed-checkpoint")
	verif.Reached()
}
