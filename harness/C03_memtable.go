package memtable

import (
	"bytes"

	"reduction.dev/reduction/dkv/kv"
	verif "reduction.dev/reduction/zz_verif"
)

// Harness_C03_MemtableWrites: one memtable under K operations put (value of length 0..1,
// arbitrary) / delete over two keys that are prefixes of one another: after every operation Get,
// ScanPrefix and All agree with a map - in particular an entry deleted and then put again with
// an empty value is present (a tombstone and an empty value are different things), and the
// sequence number kept is the newest.
func Harness_C03_MemtableWrites() {
	verif.FixedRand(3, 1, 4, 1, 5, 9, 2, 6)
	keys := [][]byte{[]byte("a"), []byte("ab")}
	mt := NewMemTable(1 << 20)
	live := make([]bool, len(keys))
	written := make([]bool, len(keys))
	val := make([][]byte, len(keys))
	seqs := make([]uint64, len(keys))
	var seq uint64
	k := verif.Param("K", 3)
	for step := 0; step < k; step++ {
		i := verif.Choose("key", len(keys))
		seq++
		if verif.Choose("op", 2) == 0 {
			v := verif.Bytes("v", verif.IntRange("vlen", 0, 1))
			mt.Put(keys[i], v, seq)
			live[i], val[i] = true, v
		} else {
			mt.Delete(keys[i], seq)
			live[i], val[i] = false, nil
		}
		written[i], seqs[i] = true, seq
		for j, key := range keys {
			e, err := mt.Get(key)
			if !written[j] {
				verif.Assert(err == kv.ErrNotFound, "unwritten-key-not-found")
				continue
			}
			verif.Assert(err == nil, "written-key-found")
			if err != nil {
				continue
			}
			verif.Assert(e.IsDelete() == !live[j], "tombstone-iff-the-last-write-was-a-delete")
			verif.Assert(e.SeqNum() == seqs[j], "newest-sequence-number-kept")
			if live[j] {
				verif.Assert(bytes.Equal(e.Value(), val[j]), "latest-value")
			}
		}
		var scanned [][]byte
		for e := range mt.ScanPrefix([]byte("a")) {
			scanned = append(scanned, e.Key())
		}
		want := 0
		for j := range keys {
			if live[j] {
				verif.Assert(want < len(scanned) && bytes.Equal(scanned[want], keys[j]), "scan-yields-the-live-keys-in-order")
				want++
			}
		}
		verif.Assert(len(scanned) == want, "scan-omits-deleted-keys")
	}
	verif.Reached()
}
