package partitioning

import (
	"reduction.dev/reduction/util/murmur"
	verif "reduction.dev/reduction/zz_verif"
)

// Harness_C05_Ranges: for every key-group count in [1,65535] (solver) and every range
// count n in [1,N] (shape): ranges are contiguous from 0 to count, sizes are
// non-negative, non-increasing and differ by at most one.
func Harness_C05_Ranges() {
	n := verif.IntRange("n", 1, verif.Param("N", 8))
	count := verif.Int("count")
	verif.Assume(verif.And(count >= 1, count <= 65535))
	rs := keyGroupRanges(count, n)
	verif.Assert(len(rs) == n, "one-range-per-operator")
	verif.Assert(rs[0].Start == 0, "starts-at-zero")
	for i := 1; i < n; i++ {
		verif.Assert(rs[i].Start == rs[i-1].End, "contiguous")
	}
	verif.Assert(rs[n-1].End == count, "covers-all-groups")
	for i := 0; i < n; i++ {
		verif.Assert(rs[i].Size() >= 0, "size-non-negative")
		if i+1 < n {
			d := rs[i].Size() - rs[i+1].Size()
			verif.Assert(verif.Or(d == 0, d == 1), "sizes-non-increasing-by-at-most-one")
		}
	}
	d := rs[0].Size() - rs[n-1].Size()
	verif.Assert(verif.Or(d == 0, d == 1), "max-minus-min-at-most-one")
	verif.Reached()
}

var verifCounts = []int{1, 2, 3, 5, 7, 12, 255, 256, 257}

// Harness_C05_Lookup: the precomputed lookup table maps every key group (solver) to
// the one range that includes it, for counts from a shape set and n in [1,N] (also n > count).
func Harness_C05_Lookup() {
	count := verifCounts[verif.Choose("count", verif.Param("COUNTS", 6))]
	n := verif.IntRange("n", 1, verif.Param("N", 4))
	ks := NewKeySpace(count, n)
	kg := verif.U16("kg")
	verif.Assume(int(kg) < count)
	ri := ks.rangeLookup[kg]
	verif.Assert(int(ri) < n, "lookup-index-in-range")
	hits := 0
	for i, r := range ks.KeyGroupRanges() {
		in := r.IncludesKeyGroup(KeyGroup(kg))
		hits += verif.IteInt(in, 1, 0)
		verif.Assert(verif.Iff(in, int(ri) == i), "lookup-names-the-including-range")
	}
	verif.Assert(hits == 1, "exactly-one-range-includes-group")
	verif.Reached()
}

// Harness_C05_KeySpacePanics: documented contract of NewKeySpace.
func Harness_C05_KeySpacePanics() {
	switch verif.Choose("case", 4) {
	case 0:
		verif.ExpectPanic("count-zero-panics", func() { NewKeySpace(0, 1) })
	case 1:
		verif.ExpectPanic("count-65536-panics", func() { NewKeySpace(65536, 1) })
	case 2:
		verif.ExpectPanic("ranges-zero-panics", func() { NewKeySpace(4, 0) })
	case 3:
		verif.Assert(!verif.Panics(func() { NewKeySpace(65535, 3) }), "count-65535-accepted")
	}
	verif.Reached()
}

func verifRotl32(x uint32, r uint) uint32 { return (x << r) | (x >> (32 - r)) }

// verifMurmur3 is MurmurHash3_x86_32 transcribed from the published C++ reference
// (smhasher MurmurHash3.cpp), independent of util/murmur.
func verifMurmur3(key []byte, seed uint32) uint32 {
	const c1 = 0xcc9e2d51
	const c2 = 0x1b873593
	n := len(key)
	h1 := seed
	nblocks := n / 4
	for i := 0; i < nblocks; i++ {
		k1 := uint32(key[4*i]) | uint32(key[4*i+1])<<8 | uint32(key[4*i+2])<<16 | uint32(key[4*i+3])<<24
		k1 *= c1
		k1 = verifRotl32(k1, 15)
		k1 *= c2
		h1 ^= k1
		h1 = verifRotl32(h1, 13)
		h1 = h1*5 + 0xe6546b64
	}
	tail := key[nblocks*4:]
	var k1 uint32
	if n&3 >= 3 {
		k1 ^= uint32(tail[2]) << 16
	}
	if n&3 >= 2 {
		k1 ^= uint32(tail[1]) << 8
	}
	if n&3 >= 1 {
		k1 ^= uint32(tail[0])
		k1 *= c1
		k1 = verifRotl32(k1, 15)
		k1 *= c2
		h1 ^= k1
	}
	h1 ^= uint32(n)
	h1 ^= h1 >> 16
	h1 *= 0x85ebca6b
	h1 ^= h1 >> 13
	h1 *= 0xc2b2ae35
	h1 ^= h1 >> 16
	return h1
}

// Harness_C05_MurmurRef: util/murmur.Hash equals the reference for every byte string
// of length 0..L (shape) with arbitrary bytes and arbitrary 32-bit seed (solver).
func Harness_C05_MurmurRef() {
	l := verif.IntRange("len", 0, verif.Param("L", 11))
	key := verif.Bytes("b", l)
	seed := verif.U32("seed")
	verif.Assert(murmur.Hash(key, int(seed)) == verifMurmur3(key, seed), "murmur-equals-reference")
	verif.Reached()
}

// Harness_C05_MurmurVectors: published test vectors of MurmurHash3_x86_32.
func Harness_C05_MurmurVectors() {
	verif.Assert(murmur.Hash([]byte(""), 0) == 0, "vector-empty-seed0")
	verif.Assert(murmur.Hash([]byte(""), 1) == 0x514E28B7, "vector-empty-seed1")
	verif.Assert(murmur.Hash([]byte("abc"), 0) == 0xB3DD93FA, "vector-abc")
	verif.Assert(murmur.Hash([]byte("Hello, world!"), 0x9747b28c) == 0x24884CBA, "vector-hello-world")
	verif.Assert(murmur.Hash([]byte("The quick brown fox jumps over the lazy dog"), 0x9747b28c) == 0x2FA826CD, "vector-quick-brown-fox")
	verif.Reached()
}

// Harness_C05_KeyGroup: KeyGroup(key) = MurmurHash3(key, seed 0) mod count (real hash,
// compared structurally with the reference), for every key of length 0..L.
func Harness_C05_KeyGroup() {
	count := verifCounts[verif.Choose("count", verif.Param("COUNTS", 6))]
	l := verif.IntRange("len", 0, verif.Param("L", 5))
	key := verif.Bytes("b", l)
	ks := NewKeySpace(count, 1)
	kg := ks.KeyGroup(key)
	verif.Assert(kg == KeyGroup(verifMurmur3(key, 0)%uint32(count)), "keygroup-is-murmur-seed0-mod-count")
	verif.Reached()
}

// Harness_C05_Route: with the hash abstracted to an arbitrary function of the key bytes
// (sound: the claim is then proved for every possible hash value), the group is below
// count, RangeIndex names exactly the range that includes it, and the two-byte prefix
// round-trips big-endian.
func Harness_C05_Route() {
	verif.Abstract("reduction.dev/reduction/util/murmur.Hash")
	count := verifCounts[verif.Choose("count", verif.Param("COUNTS", 6))]
	n := verif.IntRange("n", 1, verif.Param("N", 3))
	l := verif.IntRange("len", 0, verif.Param("L", 2))
	key := verif.Bytes("b", l)
	ks := NewKeySpace(count, n)
	kg := ks.KeyGroup(key)
	verif.Assert(int(kg) < count, "group-below-count")
	ri := ks.RangeIndex(key)
	hits := 0
	for i, r := range ks.KeyGroupRanges() {
		in := r.IncludesKeyGroup(kg)
		hits += verif.IteInt(in, 1, 0)
		verif.Assert(verif.Iff(in, ri == i), "route-index-is-the-owning-range")
	}
	verif.Assert(hits == 1, "exactly-one-owner")
	b := make([]byte, 2)
	kg.PutBytes(b)
	verif.Assert(KeyGroupFromBytes(b) == kg, "keygroup-bytes-round-trip")
	verif.Assert(verif.And(b[0] == byte(uint16(kg)>>8), b[1] == byte(kg)), "keygroup-bytes-big-endian")
	verif.Reached()
}
