package dkv

import (
	"bytes"
	"errors"
	"fmt"

	"reduction.dev/reduction/dkv/kv"
	"reduction.dev/reduction/dkv/recovery"
	"reduction.dev/reduction/dkv/storage"
	verif "reduction.dev/reduction/zz_verif"
)

// Harness_C09_Retention: K operations put / delete / background work completes / Checkpoint /
// "job retains only the newest checkpoint" / garbage collection (cleanups of unreachable
// tables run) on a real DB with a tiny memtable and eager compaction. At the end every
// retained checkpoint must still restore to its contents (all its SST and WAL files exist and
// are intact), the live database must read correctly (its current tables exist), and the WAL
// files of dropped checkpoints must be gone once the retention update was saved. Finally the
// database is closed and dropped (a redeploy in the same process) and its objects are garbage
// collected before the retained checkpoints are restored.
func Harness_C09_Retention() {
	verif.FixedRand(3, 1, 4, 1, 5, 9, 2, 6)
	verif.Abstract("bloom.Filter")
	root := storage.NewMemoryFilesystem()
	fs := root.WithWorkingDir("op1")
	var ckpts []verifCkpt // all checkpoints taken, in order; WAL file of the i-th is %06d.wal
	retainedFrom := 0     // index of the oldest retained checkpoint
	// the database lives in its own function so that nothing refers to it afterwards
	session := func() {
		faulty := &verifFailingFS{FileSystem: fs}
		db := Open(DBOptions{FileSystem: faulty, MemTableSize: 20, TargetFileSize: 64, L0TableNumCompactionTrigger: 2}, nil)
		m := newVerifModel()
		failures := 0
		k := verif.Param("K", 5)
		for step := 0; step < k; step++ {
			nops := 2*len(verifKeys) + 1
			op := verif.Choose("op", nops+3)
			switch {
			case op < nops:
				switch {
				case op < len(verifKeys):
					v := verif.Bytes("v", 1)
					db.Put(verifKeys[op], v)
					m.val[op], m.live[op] = v, true
				case op < 2*len(verifKeys):
					i := op - len(verifKeys)
					db.Delete(verifKeys[i])
					m.val[i], m.live[i] = nil, false
				default:
					verif.Assert(db.WaitOnTasks() == nil, "background-tasks-succeed")
				}
			case op == nops: // checkpoint
				if len(ckpts) >= verif.Param("CKPTS", 3) {
					break
				}
				id := uint64(len(ckpts) + 1)
				h, err := db.Checkpoint(id)()
				verif.Assert(err == nil, "checkpoint-succeeds")
				ckpts = append(ckpts, verifCkpt{h, m.clone()})
				// the checkpoints file was saved: what earlier retention updates dropped is gone by now
				for i := 0; i < retainedFrom; i++ {
					verif.Assert(!fs.Exists(fmt.Sprintf("%06d.wal", i)), "wal-of-dropped-checkpoint-removed-once-a-save-succeeds")
				}
			case op == nops+1: // the job announces that only the newest completed checkpoint is retained
				if len(ckpts) > 0 {
					// the storage may fail this one save of the checkpoints file (once per history)
					if failures < verif.Param("FAULTS", 1) && verif.Choose("storage-fails-this-save", 2) == 1 {
						failures++
						faulty.failNext = true
						before := retainedFrom
						verif.Assert(db.UpdateRetainedCheckpoints([]uint64{uint64(len(ckpts))}) != nil, "failed-save-is-reported")
						retainedFrom = len(ckpts) - 1
						// nothing was saved: the file on storage still lists the checkpoints retained before
						for i := before; i < len(ckpts); i++ {
							verif.Assert(fs.Exists(fmt.Sprintf("%06d.wal", i)), "wal-kept-while-the-retention-update-is-not-saved")
						}
						break
					}
					verif.Assert(db.UpdateRetainedCheckpoints([]uint64{uint64(len(ckpts))}) == nil, "retention-update-succeeds")
					retainedFrom = len(ckpts) - 1
					for i := 0; i < retainedFrom; i++ {
						verif.Assert(!fs.Exists(fmt.Sprintf("%06d.wal", i)), "wal-of-dropped-checkpoint-removed-after-retention-save")
					}
				}
			case op == nops+2: // garbage collection
				verif.RunCleanups()
			}
		}
		verif.Assert(db.WaitOnTasks() == nil, "background-tasks-succeed")
		verif.RunCleanups()
		verifCheckReads(db, m, "live")
		// the operator is redeployed in the same process: the database is closed and dropped
		verif.Assert(db.Close() == nil, "close-succeeds")
	}
	session()
	verif.RunCleanups() // the closed database's in-memory objects are garbage now
	for i := retainedFrom; i < len(ckpts); i++ {
		c := ckpts[i]
		r := Open(DBOptions{FileSystem: root.WithWorkingDir(fmt.Sprintf("restore%d", i)), MemTableSize: 20, TargetFileSize: 64, L0TableNumCompactionTrigger: 2}, []recovery.CheckpointHandle{c.handle})
		verifCheckReads(r, c.snap, "retained")
	}
	verif.Reached()
}

// Harness_C09_RescaleRetention: two old databases A and B (disjoint key ranges) whose WAL
// numbering may have diverged (either may have taken an extra, abandoned checkpoint) take job
// checkpoint 5 with state in the WAL only or also in tables. A new database owning everything
// opens from both handles (either order) in A's directory, B's directory or a new one - a
// redeployed operator keeps its directory - writes, and takes checkpoint 6. While checkpoint 5
// is retained it must still restore to its contents from the recorded handles; after the job
// retains only checkpoint 6 (and unreachable files are cleaned up) checkpoint 6 must restore.
func Harness_C09_RescaleRetention() {
	verif.FixedRand(3, 1, 4, 1, 5, 9, 2, 6)
	verif.Abstract("bloom.Filter")
	root := storage.NewMemoryFilesystem()
	opts := func(fs storage.FileSystem, own kv.DataOwnership) DBOptions {
		return DBOptions{FileSystem: fs, MemTableSize: 20, TargetFileSize: 64, L0TableNumCompactionTrigger: 2, DataOwnership: own}
	}
	ranges := [][2]int{{0, 2}, {2, 4}}
	dirs := []string{"opA", "opB"}
	want := map[string][]byte{}
	var keys [][]byte
	var handles []recovery.CheckpointHandle
	for oi, r := range ranges {
		db := Open(opts(root.WithWorkingDir(dirs[oi]), &verifOwner{r[0], r[1]}), nil)
		if verif.Choose("abandoned-checkpoint-first", 2) == 1 {
			_, err := db.Checkpoint(4)() // seals a WAL: this instance's WAL numbers run ahead
			verif.Assert(err == nil, "checkpoint-succeeds")
		}
		writes := 1 + 2*verif.Choose("flushed", 2) // 1 = WAL only; 3 = the memtable sealed and flushed once
		for w := 0; w < writes; w++ {
			k := verifGKey(r[0]+w%2, byte('a'+w))
			v := verif.Bytes("v", 1)
			db.Put(k, v)
			keys = append(keys, k)
			want[string(k)] = v
		}
		verif.Assert(db.WaitOnTasks() == nil, "background-tasks-succeed")
		h, err := db.Checkpoint(5)()
		verif.Assert(err == nil, "checkpoint-succeeds")
		handles = append(handles, h)
		// the old operator is redeployed (same process): its database is closed and dropped
		verif.Assert(db.Close() == nil, "close-succeeds")
	}
	verif.RunCleanups() // the old databases' in-memory objects are garbage now
	all := &verifOwner{0, 4}
	check := func(db *DB, exp map[string][]byte, id string) {
		for _, k := range keys {
			e, err := db.Get(k)
			verif.Assert(err == nil && !e.IsDelete() && bytes.Equal(e.Value(), exp[string(k)]), id)
		}
	}
	hs := []recovery.CheckpointHandle{handles[0], handles[1]}
	if verif.Choose("recorded-order", 2) == 1 {
		hs[0], hs[1] = hs[1], hs[0]
	}
	dir := []string{"opA", "opB", "opC"}[verif.Choose("directory-of-the-new-operator", 3)]
	db := Open(opts(root.WithWorkingDir(dir), all), hs)
	check(db, want, "rescaled-database-has-the-checkpointed-state")
	after := map[string][]byte{}
	for k, v := range want {
		after[k] = v
	}
	nv := verif.Bytes("nv", 1)
	db.Put(keys[0], nv)
	after[string(keys[0])] = nv
	h6, err := db.Checkpoint(6)()
	verif.Assert(err == nil, "checkpoint-after-rescale-succeeds")

	// checkpoint 5 is still retained: the handles the job recorded must still restore it
	r5 := Open(opts(root.WithWorkingDir("restore5"), all), []recovery.CheckpointHandle{handles[0], handles[1]})
	check(r5, want, "retained-checkpoint-still-restores-after-the-rescaled-database-checkpointed")

	// the job retains only checkpoint 6
	verif.Assert(db.UpdateRetainedCheckpoints([]uint64{6}) == nil, "retention-update-succeeds")
	verif.Assert(db.WaitOnTasks() == nil, "background-tasks-succeed")
	verif.RunCleanups()
	r6 := Open(opts(root.WithWorkingDir("restore6"), all), []recovery.CheckpointHandle{h6})
	check(r6, after, "newly-retained-checkpoint-restores-after-the-old-one-was-dropped")
	verif.Reached()
}

// Harness_C09_CloseKeepsRetained: R rounds of 1..W writes (every write is flushed to its own
// table; two level-0 tables trigger a compaction), background work, a checkpoint and optionally
// the job's notice that only this checkpoint is retained. Then the database is closed and
// dropped (redeploy in the same process) and its objects are garbage collected. Every
// checkpoint that is still retained - not only the newest - must restore to its contents.
func Harness_C09_CloseKeepsRetained() {
	verif.FixedRand(3, 1, 4, 1, 5, 9, 2, 6)
	verif.Abstract("bloom.Filter")
	root := storage.NewMemoryFilesystem()
	var ckpts []verifCkpt
	retainedFrom := 0
	session := func() {
		db := Open(DBOptions{FileSystem: root.WithWorkingDir("op1"), MemTableSize: 10, TargetFileSize: 64, L0TableNumCompactionTrigger: 2}, nil)
		m := newVerifModel()
		rounds := verif.Param("R", 2)
		for round := 0; round < rounds; round++ {
			n := 1 + verif.Choose("writes", verif.Param("W", 2))
			for w := 0; w < n; w++ {
				i := verif.Choose("key", len(verifKeys))
				v := verif.Bytes("v", 1)
				db.Put(verifKeys[i], v)
				m.val[i], m.live[i] = v, true
			}
			verif.Assert(db.WaitOnTasks() == nil, "background-tasks-succeed")
			id := uint64(round + 1)
			h, err := db.Checkpoint(id)()
			verif.Assert(err == nil, "checkpoint-succeeds")
			ckpts = append(ckpts, verifCkpt{h, m.clone()})
			if verif.Choose("job-retains-only-this-checkpoint", 2) == 1 {
				verif.Assert(db.UpdateRetainedCheckpoints([]uint64{id}) == nil, "retention-update-succeeds")
				retainedFrom = round
			}
		}
		verif.Assert(db.WaitOnTasks() == nil, "background-tasks-succeed")
		verif.Assert(db.Close() == nil, "close-succeeds")
	}
	session()
	verif.RunCleanups()
	for i := retainedFrom; i < len(ckpts); i++ {
		c := ckpts[i]
		r := Open(DBOptions{FileSystem: root.WithWorkingDir(fmt.Sprintf("restore%d", i)), MemTableSize: 10, TargetFileSize: 64, L0TableNumCompactionTrigger: 2}, []recovery.CheckpointHandle{c.handle})
		verifCheckReads(r, c.snap, "retained-after-close")
	}
	verif.Reached()
}

// verifFailingFS makes the next save of the checkpoints file fail when asked to.
type verifFailingFS struct {
	storage.FileSystem
	failNext bool
}

type verifFailingFile struct {
	storage.File
	fs *verifFailingFS
}

func (f *verifFailingFS) New(path string) storage.File {
	file := f.FileSystem.New(path)
	if path == "checkpoints" {
		return &verifFailingFile{File: file, fs: f}
	}
	return file
}

func (f *verifFailingFile) Save() error {
	if f.fs.failNext {
		f.fs.failNext = false
		return errors.New("storage unavailable")
	}
	return f.File.Save()
}
