package dkv

import (
	"fmt"

	"reduction.dev/reduction/dkv/recovery"
	"reduction.dev/reduction/dkv/storage"
	verif "reduction.dev/reduction/zz_verif"
)

// Harness_C09_Retention: K operations put / delete / background work completes / Checkpoint /
// "job retains only the newest checkpoint" / garbage collection (cleanups of unreachable
// tables run) on a real DB with a tiny memtable and eager compaction. At the end every
// retained checkpoint must still restore to its contents (all its SST and WAL files exist and
// are intact), the live database must read correctly (its current tables exist), and the WAL
// files of dropped checkpoints must be gone once the retention update was saved.
func Harness_C09_Retention() {
	verif.FixedRand(3, 1, 4, 1, 5, 9, 2, 6)
	verif.Abstract("bloom.Filter")
	root := storage.NewMemoryFilesystem()
	fs := root.WithWorkingDir("op1")
	db := Open(DBOptions{FileSystem: fs, MemTableSize: 20, TargetFileSize: 64, L0TableNumCompactionTrigger: 2}, nil)
	m := newVerifModel()
	var ckpts []verifCkpt // all checkpoints taken, in order; WAL file of the i-th is %06d.wal
	retainedFrom := 0      // index of the oldest retained checkpoint
	k := verif.Param("K", 5)
	for step := 0; step < k; step++ {
		nops := 2*len(verifKeys) + 1
		op := verif.Choose("op", nops+3)
		switch {
		case op < nops:
			switch {
			case op < len(verifKeys):
				v := verif.Bytes("v", 1)
				db.Put(verifKeys[op], v)
				m.val[op], m.live[op] = v, true
			case op < 2*len(verifKeys):
				i := op - len(verifKeys)
				db.Delete(verifKeys[i])
				m.val[i], m.live[i] = nil, false
			default:
				verif.Assert(db.WaitOnTasks() == nil, "background-tasks-succeed")
			}
		case op == nops: // checkpoint
			if len(ckpts) >= verif.Param("CKPTS", 3) {
				break
			}
			id := uint64(len(ckpts) + 1)
			h, err := db.Checkpoint(id)()
			verif.Assert(err == nil, "checkpoint-succeeds")
			ckpts = append(ckpts, verifCkpt{h, m.clone()})
		case op == nops+1: // the job announces that only the newest completed checkpoint is retained
			if len(ckpts) > 0 {
				verif.Assert(db.UpdateRetainedCheckpoints([]uint64{uint64(len(ckpts))}) == nil, "retention-update-succeeds")
				retainedFrom = len(ckpts) - 1
				for i := 0; i < retainedFrom; i++ {
					verif.Assert(!fs.Exists(fmt.Sprintf("%06d.wal", i)), "wal-of-dropped-checkpoint-removed-after-retention-save")
				}
			}
		case op == nops+2: // garbage collection
			verif.RunCleanups()
		}
	}
	verif.Assert(db.WaitOnTasks() == nil, "background-tasks-succeed")
	verif.RunCleanups()
	verifCheckReads(db, m, "live")
	for i := retainedFrom; i < len(ckpts); i++ {
		c := ckpts[i]
		r := Open(DBOptions{FileSystem: root.WithWorkingDir(fmt.Sprintf("restore%d", i)), MemTableSize: 20, TargetFileSize: 64, L0TableNumCompactionTrigger: 2}, []recovery.CheckpointHandle{c.handle})
		verifCheckReads(r, c.snap, "retained")
	}
	verif.Reached()
}
