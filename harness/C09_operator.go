package operator

import (
	"context"
	"errors"

	"reduction.dev/reduction/dkv/kv"
	"reduction.dev/reduction/dkv/sst"
	"reduction.dev/reduction/dkv/storage"
	"reduction.dev/reduction/partitioning"
	"reduction.dev/reduction/proto"
	verif "reduction.dev/reduction/zz_verif"
)

type verifNeighbor struct {
	proto.UnimplementedOperator
	needs bool
	err   error
	asked *int
}

func (n *verifNeighbor) NeedsTable(ctx context.Context, uri string) (bool, error) {
	*n.asked++
	verif.Yield() // reply latency
	return n.needs, n.err
}

var verifErrUnreachable = errors.New("neighbor unreachable")

// verifOperatorNeighbor is a real Operator reached the way the RPC layer reaches it: a panic in
// the handler fails the call (the HTTP server recovers it and the client sees an error).
type verifOperatorNeighbor struct {
	proto.UnimplementedOperator
	op    *Operator
	asked *int
}

func (n *verifOperatorNeighbor) NeedsTable(ctx context.Context, uri string) (needs bool, err error) {
	*n.asked++
	defer func() {
		if r := recover(); r != nil {
			needs, err = false, errors.New("rpc failed: handler panicked")
		}
	}()
	return n.op.HandleNeedsTable(uri), nil
}

// Harness_C09_SharedTable: a table loaded from a checkpoint document is garbage collected by
// an operator that shares it with 1-2 neighbours (after a rescale). Each neighbour overlapping
// the table answers NeedsTable with yes / no / an error - or is a real operator that has not
// been deployed yet - in any order. The file may be deleted
// only if every overlapping neighbour answered "no" without error.
func Harness_C09_SharedTable() {
	verif.ScheduleMode(verif.Param("MODE", 1), -1)
	verif.Abstract("bloom.Filter")
	fs := storage.NewMemoryFilesystem()
	// a real table holding keys of key groups lo..hi (two-byte big-endian group prefix)
	lo := verif.Choose("table-first-group", 4)
	hi := lo + verif.Choose("table-groups", 4-lo)
	tw := sst.NewTableWriter(fs, 0)
	t, err := tw.Write(func(yield func(kv.Entry) bool) {
		for g := lo; g <= hi; g++ {
			if !yield(verifKV{key: []byte{0, byte(g), 0}, seq: uint64(g + 1)}) {
				return
			}
		}
	})
	if err != nil {
		panic(err)
	}
	doc := t.Document()
	uri := doc.URI
	t = nil

	// this operator owns groups [0,2); neighbours own [2,3) and [3,4)
	nNeighbors := verif.IntRange("neighbors", 1, 2)
	asked := 0
	var neighbors []neighborPartition
	var answers []int // 0 no, 1 yes, 2 error
	for i := 0; i < nNeighbors; i++ {
		// 0 no, 1 yes, 2 error, 3 a real operator that has not been deployed yet (it is about to load
		// the checkpoint that references the table, so it can not say "no")
		a := verif.Choose("answer", 4)
		answers = append(answers, a)
		var nb proto.Operator
		if a == 3 {
			nb = &verifOperatorNeighbor{op: NewOperator(NewOperatorParams{ID: "nb", Host: "h"}), asked: &asked}
		} else {
			n := &verifNeighbor{needs: a == 1, asked: &asked}
			if a == 2 {
				n.err = verifErrUnreachable
			}
			nb = n
		}
		neighbors = append(neighbors, neighborPartition{keyGroupRange: partitioning.KeyGroupRange{Start: 2 + i, End: 3 + i}, operator: nb})
	}
	part := newOperatorPartition(partitioning.KeyGroupRange{Start: 0, End: 2}, neighbors)

	func() {
		shared := sst.NewTableFromDocument(fs, part, doc)
		_ = shared
	}()
	verif.RunCleanups() // the loaded table is unreachable now: its cleanup decides about the file
	verif.Quiesce()

	exists := fs.Exists(uri)
	mustKeep := false
	for i, a := range answers {
		overlaps := lo <= 2+i && 2+i <= hi
		if overlaps && a != 0 {
			mustKeep = true // a neighbour needs it, or could not be asked
		}
	}
	if mustKeep {
		verif.Assert(exists, "shared-table-kept-unless-every-overlapping-neighbour-said-no")
	}
	verif.Reached()
}

type verifKV struct {
	key []byte
	seq uint64
}

func (e verifKV) Key() []byte    { return e.key }
func (e verifKV) Value() []byte  { return []byte{1} }
func (e verifKV) IsDelete() bool { return false }
func (e verifKV) SeqNum() uint64 { return e.seq }
