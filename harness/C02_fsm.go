package operator

import (
	"reduction.dev/reduction/proto/workerpb"
	verif "reduction.dev/reduction/zz_verif"
)

// Harness_C02_CheckpointFSM: the barrier bookkeeping of one checkpoint for 1-3 upstreams and
// every sequence of K registerBarrier (right or wrong id) / alignSender calls: a sender is
// parked iff its own barrier has been registered and another sender's has not.
func Harness_C02_CheckpointFSM() {
	n := verif.IntRange("senders", 1, 3)
	ids := []string{"a", "b", "c"}[:n]
	c := newCheckpoint(7, ids)
	got := make([]bool, n)
	all := func() bool {
		for _, g := range got {
			if !g {
				return false
			}
		}
		return true
	}
	k := verif.Param("K", 4)
	for step := 0; step < k; step++ {
		s := verif.Choose("sender", n)
		if verif.Choose("op", 2) == 0 {
			if all() {
				continue // the operator discards the checkpoint object once complete
			}
			id := uint64(7 + verif.Choose("wrong-id", 2))
			err := c.registerBarrier(ids[s], &workerpb.CheckpointBarrier{CheckpointId: id})
			if id != 7 {
				verif.Assert(err != nil, "barrier-of-another-checkpoint-rejected")
			} else {
				verif.Assert(err == nil, "barrier-accepted")
				got[s] = true
			}
			verif.Assert(c.hasAllBarriers() == all(), "complete-iff-every-sender-delivered-its-barrier")
		} else {
			wait := c.alignSender(ids[s])
			released := false
			go func() {
				wait()
				released = true
			}()
			verif.Quiesce()
			parked := got[s] && !all()
			verif.Assert(released == !parked, "sender-parked-iff-its-barrier-arrived-and-another-is-missing")
		}
	}
	verif.Reached()
}
