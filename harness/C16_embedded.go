package embedded

import (
	"reduction.dev/reduction/connectors"
	"reduction.dev/reduction/proto/workerpb"
	verif "reduction.dev/reduction/zz_verif"
)

// Harness_C16_EmbeddedAssign: for every split count 0..S and runner count 1..R the embedded
// splitter hands every split to exactly one source runner.
func Harness_C16_EmbeddedAssign() {
	splits := verif.IntRange("splits", 0, verif.Param("S", 5))
	nr := verif.IntRange("runners", 1, verif.Param("R", 3))
	ids := []string{"r1", "r2", "r3", "r4"}[:nr]
	var got map[string][]*workerpb.SourceSplit
	sp := NewSourceSplitter(SourceConfig{SplitCount: splits}, ids, connectors.SourceSplitterHooks{AssignSplits: func(a map[string][]*workerpb.SourceSplit) { got = a }})
	verif.Assert(sp.Start(nil) == nil, "start-succeeds")
	count := map[string]int{}
	for runner, list := range got {
		member := false
		for _, id := range ids {
			if id == runner {
				member = true
			}
		}
		verif.Assert(member, "assigned-only-to-known-runners")
		for _, s := range list {
			count[s.SplitId]++
		}
	}
	verif.Assert(len(count) == splits, "every-split-assigned")
	for _, c := range count {
		verif.Assert(c == 1, "each-split-has-exactly-one-reader")
	}
	verif.Reached()
}
