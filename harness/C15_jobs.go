package jobs

import (
	"bytes"
	"context"
	"io"
	"iter"
	"time"

	"reduction.dev/reduction/clocks"
	"reduction.dev/reduction/config"
	"reduction.dev/reduction/connectors"
	"reduction.dev/reduction-protocol/jobconfigpb"
	"reduction.dev/reduction/proto"
	"reduction.dev/reduction/proto/jobpb"
	"reduction.dev/reduction/proto/snapshotpb"
	"reduction.dev/reduction/proto/workerpb"
	"reduction.dev/reduction/storage/locations"
	verif "reduction.dev/reduction/zz_verif"
)

// ---------------------------------------------------------------- fakes

// verifClock is the repository's FrozenClock (manual time, captured tickers) with a settable time.
type verifClock struct {
	*clocks.FrozenClock
}

func newVerifClock() *verifClock {
	c := &verifClock{clocks.NewFrozenClock()}
	c.Advance(1000 * time.Second)
	return c
}

type verifOp struct {
	proto.UnimplementedOperator
	id      string
	deploys *[]verifDeploy
	log     *[]string
	hold    *verifHold
}

// verifHold lets the harness keep an operator's Deploy call open (a slow deployment).
type verifHold struct {
	on      bool
	waiting int
	gate    chan struct{}
	// retention notices: the first one may be answered slowly; applied ids are recorded
	retainOn      bool
	retainWaiting int
	retainGate    chan struct{}
	retained      []uint64
}

type verifStarted struct {
	runner string
	id     uint64
}

type verifDeploy struct {
	target    string
	operators []string
	runners   []string
	ckpts     int
	ckptID    uint64 // id of the checkpoint the operator is deployed from (0 = none)
}

func (o *verifOp) ID() string   { return o.id }
func (o *verifOp) Host() string { return "h" }
func (o *verifOp) Deploy(ctx context.Context, req *workerpb.DeployOperatorRequest) error {
	if o.hold != nil && o.hold.on {
		o.hold.waiting++
		<-o.hold.gate
		o.hold.waiting--
	}
	d := verifDeploy{target: o.id, runners: req.SourceRunnerIds, ckpts: len(req.Checkpoints)}
	if len(req.Checkpoints) > 0 {
		d.ckptID = req.Checkpoints[0].CheckpointId
	}
	for _, n := range req.Operators {
		d.operators = append(d.operators, n.Id)
	}
	*o.deploys = append(*o.deploys, d)
	return nil
}
func (o *verifOp) UpdateRetainedCheckpoints(ctx context.Context, ids []uint64) error {
	if o.hold != nil && o.hold.retainOn {
		o.hold.retainOn = false // only the first notice is answered slowly
		o.hold.retainWaiting++
		<-o.hold.retainGate
		o.hold.retainWaiting--
	}
	if o.hold != nil {
		o.hold.retained = append(o.hold.retained, ids[len(ids)-1])
	}
	return nil
}

type verifRunner struct {
	proto.UnimplementedSourceRunner
	id      string
	deploys *[]verifDeploy
	started *[]verifStarted
}

func (r *verifRunner) ID() string   { return r.id }
func (r *verifRunner) Host() string { return "h" }
func (r *verifRunner) Deploy(ctx context.Context, req *workerpb.DeploySourceRunnerRequest) error {
	d := verifDeploy{target: r.id}
	for _, n := range req.Operators {
		d.operators = append(d.operators, n.Id)
	}
	*r.deploys = append(*r.deploys, d)
	return nil
}
func (r *verifRunner) AssignSplits(context.Context, []*workerpb.SourceSplit) error { return nil }
func (r *verifRunner) StartCheckpoint(ctx context.Context, id uint64) error {
	*r.started = append(*r.started, verifStarted{r.id, id})
	return nil
}

type verifJobLoc struct {
	paths []string
	data  [][]byte
	// holdWrites: a write blocks until the harness releases it (slow storage)
	holdWrites bool
	waiting    int
	gate       chan struct{}
}

func (l *verifJobLoc) find(p string) int {
	for i, q := range l.paths {
		if q == p {
			return i
		}
	}
	return -1
}
func (l *verifJobLoc) Write(path string, r io.Reader) (string, error) {
	b, _ := io.ReadAll(r)
	if l.holdWrites {
		l.waiting++
		<-l.gate
		l.waiting--
	}
	if i := l.find(path); i >= 0 {
		l.data[i] = b
		return path, nil
	}
	l.paths = append(l.paths, path)
	l.data = append(l.data, b)
	return path, nil
}
func (l *verifJobLoc) Read(path string) ([]byte, error) {
	if i := l.find(path); i >= 0 {
		return l.data[i], nil
	}
	return nil, locations.ErrNotFound
}
func (l *verifJobLoc) List() iter.Seq2[string, error] {
	return func(yield func(string, error) bool) {
		for _, p := range l.paths {
			if !yield(p, nil) {
				return
			}
		}
	}
}
func (l *verifJobLoc) URI(path string) (string, error) { return path, nil }
func (l *verifJobLoc) Copy(src, dst string) error {
	i := l.find(src)
	if i < 0 {
		return locations.ErrNotFound
	}
	l.Write(dst, bytes.NewBuffer(l.data[i]))
	return nil
}
func (l *verifJobLoc) Remove(paths ...string) error {
	for _, p := range paths {
		if i := l.find(p); i >= 0 {
			l.paths = append(l.paths[:i:i], l.paths[i+1:]...)
			l.data = append(l.data[:i:i], l.data[i+1:]...)
		}
	}
	return nil
}

// verifSource is a source whose splitter supports checkpoints and records what it is started with.
type verifSource struct {
	starts *[]*snapshotpb.SourceCheckpoint
}

func (c verifSource) Validate() error { return nil }
func (c verifSource) NewSourceSplitter(ids []string, hooks connectors.SourceSplitterHooks, errChan chan<- error) connectors.SourceSplitter {
	return &verifSplitter{ids: ids, hooks: hooks, starts: c.starts}
}
func (c verifSource) NewSourceReader(hooks connectors.SourceReaderHooks) connectors.SourceReader {
	return nil
}
func (c verifSource) ProtoMessage() *jobconfigpb.Source { return &jobconfigpb.Source{} }

type verifSplitter struct {
	connectors.UnimplementedSourceSplitter
	ids    []string
	hooks  connectors.SourceSplitterHooks
	starts *[]*snapshotpb.SourceCheckpoint
}

func (s *verifSplitter) Start(ckpt *snapshotpb.SourceCheckpoint) error {
	*s.starts = append(*s.starts, ckpt)
	a := map[string][]*workerpb.SourceSplit{}
	if len(s.ids) > 0 {
		a[s.ids[0]] = []*workerpb.SourceSplit{{SplitId: "only"}}
	}
	s.hooks.AssignSplits(a)
	return nil
}
func (s *verifSplitter) Checkpoint() []byte { return []byte("splitter-state") }
func (s *verifSplitter) Close() error       { return nil }

// ---------------------------------------------------------------- registry

// Harness_C15_Registry: registry + liveness tracker under every sequence of K register /
// deregister / time passes / purge events over 2 operators and 2 source runners, with the
// elapsed time a solver variable: an assembly is offered iff enough live nodes of each kind
// are registered, holds exactly taskCount registered nodes of each kind, and Purge removes
// exactly the nodes whose last heartbeat is older than the deadline.
func Harness_C15_Registry() {
	clock := newVerifClock()
	deadline := 5 * time.Second
	taskCount := verif.IntRange("taskCount", 1, 2)
	reg := NewRegistry(taskCount, NewLivenessTracker(clock, deadline))
	ids := []string{"o1", "o2", "r1", "r2"}
	registered := make([]bool, 4)
	lastBeat := make([]int64, 4) // seconds
	tracked := make([]bool, 4)   // liveness tracker still knows the id
	now := int64(1000)
	var deploys []verifDeploy
	var started []verifStarted
	k := verif.Param("K", 4)
	everyStep := verif.Choose("assembly-requested-after-every-step", 2) == 1
	for step := 0; step < k; step++ {
		switch op := verif.Choose("op", 4); op {
		case 0: // register (also the heartbeat)
			i := verif.Choose("node", 4)
			if i < 2 {
				reg.RegisterOperator(&verifOp{id: ids[i], deploys: &deploys})
			} else {
				reg.RegisterSourceRunner(&verifRunner{id: ids[i], deploys: &deploys, started: &started})
			}
			registered[i], lastBeat[i], tracked[i] = true, now, true
		case 1:
			i := verif.Choose("node", 4)
			if i < 2 {
				reg.DeregisterOperator(&jobpb.NodeIdentity{Id: ids[i]})
			} else {
				reg.DeregisterSourceRunner(&jobpb.NodeIdentity{Id: ids[i]})
			}
			registered[i] = false
		case 2:
			d := int64(verif.Byte("elapsed")) // seconds; narrow values keep the solver queries cheap
			verif.Assume(d <= 20)
			now += d
			clock.Advance(time.Duration(d) * time.Second)
		case 3:
			purged := reg.Purge()
			for i, id := range ids {
				dead := tracked[i] && lastBeat[i] < now-5
				got := false
				for _, p := range purged {
					if p == id {
						got = true
					}
				}
				verif.Assert(got == dead, "purge-removes-exactly-the-expired-nodes")
				if dead {
					registered[i], tracked[i] = false, false
				}
			}
		}
		nOps, nRun := 0, 0
		for i := range ids {
			if registered[i] {
				if i < 2 {
					nOps++
				} else {
					nRun++
				}
			}
		}
		// the job builds an assembly only while it waits for one: looking after every step would
		// re-sort the registry's lists each time (always after the last step)
		if step < k-1 && !everyStep {
			continue
		}
		a, err := reg.NewAssembly()
		if nOps >= taskCount && nRun >= taskCount {
			verif.Assert(err == nil && a != nil, "assembly-offered-when-enough-nodes")
			if a != nil {
				verif.Assert(len(a.operators) == taskCount && len(a.sourceRunners) == taskCount, "assembly-has-exactly-the-configured-size")
				for _, o := range a.operators {
					verif.Assert(reg.HasOperator(o), "assembly-members-are-registered")
					for i, id := range ids {
						if id == o.ID() {
							verif.Assert(registered[i], "assembly-holds-only-currently-registered-live-nodes")
						}
					}
				}
				for _, r := range a.sourceRunners {
					verif.Assert(reg.HasSourceRunner(r), "assembly-members-are-registered")
					for i, id := range ids {
						if id == r.ID() {
							verif.Assert(registered[i], "assembly-holds-only-currently-registered-live-nodes")
						}
					}
				}
				ok, _ := a.Healthy(reg)
				verif.Assert(ok, "fresh-assembly-is-healthy")
			}
		} else {
			verif.Assert(err != nil && a == nil, "no-assembly-without-enough-nodes")
		}
	}
	verif.Reached()
}

// ---------------------------------------------------------------- job recovery

type verifJobEnv struct {
	job     *Job
	clock   *verifClock
	deploys []verifDeploy
	started []verifStarted
	loc     *verifJobLoc
	hold    *verifHold

	splitterStarts []*snapshotpb.SourceCheckpoint
}

func verifNewJob(workers int) *verifJobEnv {
	e := &verifJobEnv{clock: newVerifClock(), loc: &verifJobLoc{gate: make(chan struct{})}, hold: &verifHold{gate: make(chan struct{}), retainGate: make(chan struct{})}}
	job, err := New(&NewParams{
		JobConfig:         &config.Config{WorkerCount: workers, KeyGroupCount: 8, WorkingStorageLocation: "memory:///w", Sources: []connectors.SourceConfig{verifSource{starts: &e.splitterStarts}}},
		Clock:             e.clock,
		HeartbeatDeadline: 5 * time.Second,
		Store:             e.loc,
		OperatorFactory: func(senderID string, node *jobpb.NodeIdentity) proto.Operator {
			return &verifOp{id: node.Id, deploys: &e.deploys, hold: e.hold}
		},
		SourceRunnerFactory: func(node *jobpb.NodeIdentity) proto.SourceRunner {
			return &verifRunner{id: node.Id, deploys: &e.deploys, started: &e.started}
		},
		ErrChan: make(chan error, 8),
	})
	if err != nil {
		panic(err)
	}
	e.job = job
	return e
}

func (e *verifJobEnv) settle() { verif.Quiesce() }

// Harness_C15_JobRecovery: the real Job state machine (registry, task queue, start, checkpoint
// ticker, snapshot store) with fake workers and a manual clock. The job assembles, runs, starts a
// checkpoint; a member is lost at a shape-chosen moment (before the checkpoint, while it is in
// progress with a shape-chosen subset of acknowledgements, or after it completed); a replacement
// registers. Deployments must go to exactly the configured number of registered nodes, and after
// the recovery a checkpoint tick must start a checkpoint with a fresh id on the new assembly whose
// acknowledgements complete it.
func Harness_C15_JobRecovery() {
	workers := 1
	e := verifNewJob(workers)
	ctx := context.Background()
	e.job.HandleRegisterOperator(&jobpb.NodeIdentity{Id: "o1", Host: "h"})
	e.settle()
	verif.Assert(len(e.deploys) == 0, "nothing-deployed-before-the-assembly-is-full")
	e.job.HandleRegisterSourceRunner(&jobpb.NodeIdentity{Id: "r1", Host: "h"})
	e.settle()
	verif.Assert(e.job.status.Value() == StatusRunning, "job-runs-on-a-full-assembly")
	verif.Assert(len(e.deploys) == 2*workers, "every-member-deployed-once")

	// a standby operator may be present
	standby := verif.Choose("standby", 2) == 1
	if standby {
		e.job.HandleRegisterOperator(&jobpb.NodeIdentity{Id: "o9", Host: "h"})
		e.settle()
		verif.Assert(len(e.deploys) == 2*workers, "standby-not-deployed")
	}

	// when the failure strikes relative to the first checkpoint
	phase := verif.Choose("failure-phase", 3) // 0 before any checkpoint, 1 during, 2 after completion
	var firstID uint64
	if phase >= 1 {
		e.clock.TickEvery("checkpointing")
		e.settle()
		verif.Assert(len(e.started) == workers, "checkpoint-started-on-every-source-runner")
		cur := e.job.snapshotStore.CurrentCheckpoint()
		verif.Assert(cur == nil, "no-checkpoint-before-acks")
		firstID = 1
		acks := 3 // both
		if phase == 1 {
			acks = verif.Choose("acks-before-failure", 3) // 0 none, 1 operator only, 2 source runner only
		}
		if acks == 1 || acks == 3 {
			e.job.HandleOperatorCheckpointComplete(ctx, &snapshotpb.OperatorCheckpoint{CheckpointId: firstID, OperatorId: "o1", DkvFileUri: "w/o1/checkpoints", KeyGroupRange: &snapshotpb.KeyGroupRange{Start: 0, End: 8}})
		}
		if acks == 2 || acks == 3 {
			e.job.HandleSourceRunnerCheckpointComplete(ctx, &jobpb.SourceRunnerCheckpointCompleteRequest{CheckpointId: firstID, SourceRunnerId: "r1", SplitStates: [][]byte{{1}}})
		}
		e.settle()
		if phase == 2 {
			cur := e.job.snapshotStore.CurrentCheckpoint()
			verif.Assert(cur != nil && cur.Id == firstID, "first-checkpoint-completes")
		}
	}

	// a member is lost: deregistration or heartbeat expiry noticed at the next registry event
	lostOp := verif.Choose("lost", 2) == 0
	if verif.Choose("how", 2) == 0 {
		if lostOp {
			e.job.HandleDeregisterOperator(&jobpb.NodeIdentity{Id: "o1"})
		} else {
			e.job.HandleDeregisterSourceRunner(&jobpb.NodeIdentity{Id: "r1"})
		}
	} else {
		// everybody else keeps heartbeating; the lost node stops
		e.clock.Advance(4 * time.Second)
		if lostOp {
			e.job.HandleRegisterSourceRunner(&jobpb.NodeIdentity{Id: "r1", Host: "h"})
		} else {
			e.job.HandleRegisterOperator(&jobpb.NodeIdentity{Id: "o1", Host: "h"})
		}
		if standby {
			e.job.HandleRegisterOperator(&jobpb.NodeIdentity{Id: "o9", Host: "h"})
		}
		e.settle()
		e.clock.Advance(4 * time.Second)
		if lostOp {
			e.job.HandleRegisterSourceRunner(&jobpb.NodeIdentity{Id: "r1", Host: "h"})
		} else {
			e.job.HandleRegisterOperator(&jobpb.NodeIdentity{Id: "o1", Host: "h"})
		}
	}
	e.settle()
	before := len(e.deploys)
	newOp, newRunner := "o1", "r1"
	if lostOp && standby {
		// the standby takes over at the next membership event (workers re-register every few seconds)
		verif.Assert(before == 2*workers, "nothing-deployed-while-paused")
		newOp = "o9"
		e.job.HandleRegisterOperator(&jobpb.NodeIdentity{Id: "o9", Host: "h"})
		e.settle()
	} else {
		verif.Assert(e.job.status.Value() == StatusPaused, "job-pauses-without-a-full-assembly")
		verif.Assert(before == 2*workers, "nothing-deployed-while-paused")
		// replacement registers
		if lostOp {
			newOp = "o2"
			e.job.HandleRegisterOperator(&jobpb.NodeIdentity{Id: "o2", Host: "h"})
		} else {
			newRunner = "r2"
			e.job.HandleRegisterSourceRunner(&jobpb.NodeIdentity{Id: "r2", Host: "h"})
		}
		e.settle()
	}
	verif.Assert(e.job.status.Value() == StatusRunning, "job-runs-again-after-replacement")
	redeploys := e.deploys[2*workers:]
	verif.Assert(len(redeploys) == 2*workers, "every-member-redeployed-once")
	for _, d := range redeploys {
		verif.Assert(len(d.operators) == workers && d.operators[0] == newOp, "redeployed-to-exactly-the-live-operators")
		if d.target == newOp {
			verif.Assert(len(d.runners) == workers && d.runners[0] == newRunner, "redeployed-with-exactly-the-live-source-runners")
			if phase == 2 {
				verif.Assert(d.ckpts == 1, "redeployed-from-the-latest-completed-checkpoint")
			} else {
				verif.Assert(d.ckpts == 0, "redeployed-from-scratch-without-a-completed-checkpoint")
			}
		}
	}

	// the splitter of the new assembly is started from the completed checkpoint's source positions
	verif.Assert(len(e.splitterStarts) == 2, "splitter-started-once-per-assembly")
	if len(e.splitterStarts) == 2 {
		got := e.splitterStarts[1]
		if phase == 2 {
			verif.Assert(got != nil && len(got.SplitStates) == 1 && len(got.SplitStates[0]) == 1 && got.SplitStates[0][0] == 1, "splitter-restarted-from-checkpointed-positions")
		} else {
			verif.Assert(got == nil, "splitter-restarted-from-scratch-without-a-completed-checkpoint")
		}
	}

	// checkpointing resumes: a tick starts a checkpoint with a fresh id on the new assembly
	startedBefore := len(e.started)
	e.clock.TickEvery("checkpointing")
	e.settle()
	verif.Assert(len(e.started) == startedBefore+workers, "checkpoint-tick-starts-a-checkpoint-after-recovery")
	if len(e.started) == startedBefore+workers {
		last := e.started[len(e.started)-1]
		nid := last.id
		verif.Assert(last.runner == newRunner, "checkpoint-started-on-the-new-assembly")
		verif.Assert(nid > firstID, "fresh-checkpoint-id-after-recovery")
		e.job.HandleOperatorCheckpointComplete(ctx, &snapshotpb.OperatorCheckpoint{CheckpointId: nid, OperatorId: newOp, DkvFileUri: "w/" + newOp + "/checkpoints", KeyGroupRange: &snapshotpb.KeyGroupRange{Start: 0, End: 8}})
		e.job.HandleSourceRunnerCheckpointComplete(ctx, &jobpb.SourceRunnerCheckpointCompleteRequest{CheckpointId: nid, SourceRunnerId: newRunner, SplitStates: [][]byte{{2}}})
		e.settle()
		cur := e.job.snapshotStore.CurrentCheckpoint()
		verif.Assert(cur != nil && cur.Id == nid, "checkpoints-complete-again-after-recovery")
	}
	verif.Reached()
}

// Harness_C15_LossDuringDeploy: the real Job with fake workers; the operator's Deploy call of
// the first assembly is kept open (a slow deployment) while a member may be lost (deregistered
// or its heartbeats expire); then the deployment succeeds. The job must not stay running on an
// assembly with a missing member: it pauses, and runs again on exactly the live nodes once a
// replacement registers; a checkpoint tick then starts a checkpoint on the new assembly.
func Harness_C15_LossDuringDeploy() {
	e := verifNewJob(1)
	e.hold.on = true
	e.job.HandleRegisterOperator(&jobpb.NodeIdentity{Id: "o1", Host: "h"})
	e.job.HandleRegisterSourceRunner(&jobpb.NodeIdentity{Id: "r1", Host: "h"})
	e.settle()
	verif.Assert(e.hold.waiting == 1, "deployment-in-progress")
	verif.Assert(e.job.status.Value() == StatusAssemblyStarting, "job-is-starting-its-assembly")
	lost := verif.Choose("lost", 3) // 0 nobody, 1 the operator, 2 the source runner
	how := 0
	if lost != 0 {
		how = verif.Choose("how", 2)
	}
	switch {
	case lost == 1 && how == 0:
		e.job.HandleDeregisterOperator(&jobpb.NodeIdentity{Id: "o1"})
	case lost == 2 && how == 0:
		e.job.HandleDeregisterSourceRunner(&jobpb.NodeIdentity{Id: "r1"})
	case lost != 0:
		// the other member keeps heartbeating; the lost one stops
		for i := 0; i < 2; i++ {
			e.clock.Advance(4 * time.Second)
			if lost == 1 {
				e.job.HandleRegisterSourceRunner(&jobpb.NodeIdentity{Id: "r1", Host: "h"})
			} else {
				e.job.HandleRegisterOperator(&jobpb.NodeIdentity{Id: "o1", Host: "h"})
			}
			e.settle()
		}
	}
	e.settle()
	// the deployment completes
	e.hold.on = false
	e.hold.gate <- struct{}{}
	e.settle()
	if lost == 0 {
		verif.Assert(e.job.status.Value() == StatusRunning, "job-runs-on-a-full-assembly")
	} else {
		verif.Assert(e.job.status.Value() != StatusRunning, "job-does-not-run-with-a-member-lost-during-deployment")
		newOp, newRunner := "o1", "r1"
		if lost == 1 {
			newOp = "o2"
			e.job.HandleRegisterOperator(&jobpb.NodeIdentity{Id: "o2", Host: "h"})
		} else {
			newRunner = "r2"
			e.job.HandleRegisterSourceRunner(&jobpb.NodeIdentity{Id: "r2", Host: "h"})
		}
		e.settle()
		verif.Assert(e.job.status.Value() == StatusRunning, "job-runs-again-after-replacement")
		n := len(e.deploys)
		verif.Assert(n >= 2, "replacement-assembly-deployed")
		if n >= 2 {
			for _, d := range e.deploys[n-2:] {
				verif.Assert(len(d.operators) == 1 && d.operators[0] == newOp, "redeployed-to-exactly-the-live-operators")
				if d.target == newOp {
					verif.Assert(len(d.runners) == 1 && d.runners[0] == newRunner, "redeployed-with-exactly-the-live-source-runners")
				}
			}
		}
	}
	// checkpointing works on the assembly that runs now
	startedBefore := len(e.started)
	e.clock.TickEvery("checkpointing")
	e.settle()
	verif.Assert(len(e.started) == startedBefore+1, "checkpoint-tick-starts-a-checkpoint")
	verif.Reached()
}

// Harness_C01_RestartSnapshotConsistency: checkpoint 1 is published; checkpoint 2 is fully
// acknowledged but its snapshot file is still being written (slow storage) when a member is lost
// and a replacement registers. The job deploys the new assembly - and the write may complete
// while the operators are being deployed. Operators and sources must restart from one and the
// same checkpoint: the split positions the new splitter starts from belong to the checkpoint
// the operators were deployed with.
func Harness_C01_RestartSnapshotConsistency() {
	e := verifNewJob(1)
	ctx := context.Background()
	e.job.HandleRegisterOperator(&jobpb.NodeIdentity{Id: "o1", Host: "h"})
	e.job.HandleRegisterSourceRunner(&jobpb.NodeIdentity{Id: "r1", Host: "h"})
	e.settle()
	verif.Assert(e.job.status.Value() == StatusRunning, "job-runs-on-a-full-assembly")
	ack := func(id uint64, pos byte) {
		e.job.HandleOperatorCheckpointComplete(ctx, &snapshotpb.OperatorCheckpoint{CheckpointId: id, OperatorId: "o1", DkvFileUri: "w/o1/checkpoints", KeyGroupRange: &snapshotpb.KeyGroupRange{Start: 0, End: 8}})
		e.job.HandleSourceRunnerCheckpointComplete(ctx, &jobpb.SourceRunnerCheckpointCompleteRequest{CheckpointId: id, SourceRunnerId: "r1", SplitStates: [][]byte{{pos}}})
	}
	e.clock.TickEvery("checkpointing")
	e.settle()
	ack(1, 1)
	e.settle()
	cur := e.job.snapshotStore.CurrentCheckpoint()
	verif.Assert(cur != nil && cur.Id == 1, "first-checkpoint-completes")

	// checkpoint 2: everybody acknowledges, the snapshot write hangs
	e.clock.TickEvery("checkpointing")
	e.settle()
	e.loc.holdWrites = true
	ack(2, 2)
	e.settle()
	verif.Assert(e.loc.waiting == 1, "publication-of-checkpoint-2-in-flight")

	// the operator is lost, a replacement registers: the job starts a new assembly; its Deploy is slow
	e.hold.on = true
	e.job.HandleDeregisterOperator(&jobpb.NodeIdentity{Id: "o1"})
	e.settle()
	e.job.HandleRegisterOperator(&jobpb.NodeIdentity{Id: "o2", Host: "h"})
	e.settle()
	verif.Assert(e.hold.waiting == 1, "deployment-in-progress")
	// when the snapshot write completes: before the deployment finishes, or after it
	if verif.Choose("write-completes-during-deploy", 2) == 1 {
		e.loc.holdWrites = false
		e.loc.gate <- struct{}{}
		e.settle()
	}
	e.hold.on = false
	e.hold.gate <- struct{}{}
	e.settle()
	if e.loc.waiting > 0 {
		e.loc.holdWrites = false
		e.loc.gate <- struct{}{}
		e.settle()
	}
	verif.Assert(e.job.status.Value() == StatusRunning, "job-runs-again-after-replacement")
	var dep *verifDeploy
	for i := range e.deploys {
		if e.deploys[i].target == "o2" {
			dep = &e.deploys[i]
		}
	}
	verif.Assert(dep != nil, "replacement-deployed")
	verif.Assert(len(e.splitterStarts) == 2, "splitter-started-once-per-assembly")
	if dep != nil && len(e.splitterStarts) == 2 {
		got := e.splitterStarts[1]
		verif.Assert(dep.ckptID >= 1 && got != nil && len(got.SplitStates) == 1 && len(got.SplitStates[0]) == 1, "restart-from-a-completed-checkpoint")
		if got != nil && len(got.SplitStates) == 1 && len(got.SplitStates[0]) == 1 {
			verif.Assert(uint64(got.SplitStates[0][0]) == dep.ckptID, "sources-resume-from-the-checkpoint-the-operators-were-deployed-with")
		}
	}
	verif.Reached()
}

// Harness_C13_RetentionNoticeOrder: a real Job whose operator answers the retention notice of
// one checkpoint slowly while the next checkpoints complete. Operators must be told what to
// retain in checkpoint order: the last notice an operator applies names the newest completed
// checkpoint, never an older one.
func Harness_C13_RetentionNoticeOrder() {
	e := verifNewJob(1)
	ctx := context.Background()
	e.job.HandleRegisterOperator(&jobpb.NodeIdentity{Id: "o1", Host: "h"})
	e.job.HandleRegisterSourceRunner(&jobpb.NodeIdentity{Id: "r1", Host: "h"})
	e.settle()
	verif.Assert(e.job.status.Value() == StatusRunning, "job-runs-on-a-full-assembly")
	n := verif.Param("CKPTS", 3)
	slow := 2 + verif.Choose("slowly-answered-notice", n-1) // the notice of this checkpoint is held (the first notice is for checkpoint 2)
	for id := uint64(1); id <= uint64(n); id++ {
		if int(id) == slow {
			e.hold.retainOn = true
		}
		e.clock.TickEvery("checkpointing")
		e.settle()
		e.job.HandleOperatorCheckpointComplete(ctx, &snapshotpb.OperatorCheckpoint{CheckpointId: id, OperatorId: "o1", DkvFileUri: "w/o1/checkpoints", KeyGroupRange: &snapshotpb.KeyGroupRange{Start: 0, End: 8}})
		e.job.HandleSourceRunnerCheckpointComplete(ctx, &jobpb.SourceRunnerCheckpointCompleteRequest{CheckpointId: id, SourceRunnerId: "r1", SplitStates: [][]byte{{byte(id)}}})
		e.settle()
	}
	for e.hold.retainWaiting > 0 {
		e.hold.retainGate <- struct{}{}
		e.settle()
	}
	e.settle()
	cur := e.job.snapshotStore.CurrentCheckpoint()
	verif.Assert(cur != nil && cur.Id == uint64(n), "newest-checkpoint-is-current")
	verif.Assert(len(e.hold.retained) >= 1, "retention-notices-delivered")
	for i := 1; i < len(e.hold.retained); i++ {
		verif.Assert(e.hold.retained[i-1] < e.hold.retained[i], "operators-told-what-to-retain-in-checkpoint-order")
	}
	if len(e.hold.retained) > 0 {
		verif.Assert(e.hold.retained[len(e.hold.retained)-1] == uint64(n), "last-retention-notice-names-the-newest-checkpoint")
	}
	verif.Reached()
}
