package wmark

import (
	"time"

	verif "reduction.dev/reduction/zz_verif"
)

type verifTS struct {
	sec  int64
	nsec int64
}

func verifLess(a, b verifTS) bool {
	return verif.Or(a.sec < b.sec, verif.And(a.sec == b.sec, a.nsec < b.nsec))
}
func verifEqTS(a, b verifTS) bool { return verif.And(a.sec == b.sec, a.nsec == b.nsec) }

func verifOf(t time.Time) verifTS { return verifTS{t.Unix(), int64(t.Nanosecond())} }

// Harness_C11_Watermarker: for every sequence of k event timestamps in any order, after each
// AdvanceTime the watermark (i) has not decreased, (ii) is strictly before the largest
// timestamp forwarded so far, (iii) equals that largest timestamp minus (lateness + 1ns).
func Harness_C11_Watermarker() {
	lateness := []time.Duration{0, 1, time.Second, 1500 * time.Millisecond}[verif.Choose("lateness", 4)]
	w := &Watermarker{allowedLateness: lateness}
	k := verif.Param("K", 3)
	var seen []verifTS
	prev := verifOf(w.CurrentWatermark())
	for i := 0; i < k; i++ {
		sec := verif.I64("sec")
		nsec := verif.I64("nsec")
		verif.Assume(verif.And(verif.And(sec >= 0, sec < 1<<33), verif.And(nsec >= 0, nsec < 1000000000)))
		ts := verifTS{sec, nsec}
		w.AdvanceTime(time.Unix(sec, nsec))
		seen = append(seen, ts)
		wm := w.CurrentWatermark()
		cur := verifOf(wm)
		verif.Assert(!verifLess(cur, prev), "watermark-never-decreases")
		// strictly before some forwarded timestamp == before the largest one
		before := false
		for _, s := range seen {
			before = verif.Or(before, verifLess(cur, s))
		}
		verif.Assert(before, "watermark-below-max-forwarded")
		// closeness: wm + lateness + 1ns is >= every forwarded timestamp and equals one of them
		up := verifOf(wm.Add(lateness + time.Nanosecond))
		ge, hit := true, false
		for _, s := range seen {
			ge = verif.And(ge, !verifLess(up, s))
			hit = verif.Or(hit, verifEqTS(up, s))
		}
		verif.Assert(verif.And(ge, hit), "watermark-is-max-minus-lateness-minus-1ns")
		prev = cur
	}
	verif.Reached()
}
