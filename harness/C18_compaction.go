package sst

import (
	"bytes"

	"reduction.dev/reduction/dkv/kv"
	"reduction.dev/reduction/dkv/storage"
	verif "reduction.dev/reduction/zz_verif"
)

var verifCKeys = [][]byte{[]byte("a"), []byte("b"), []byte("c")}

type verifVisible struct {
	found bool
	del   bool
	val   []byte
	seq   uint64
}

func verifLookup(ll *LevelList, key []byte) verifVisible {
	e, err := ll.Get(key)
	if err == kv.ErrNotFound {
		return verifVisible{}
	}
	if err != nil {
		panic(err)
	}
	return verifVisible{true, e.IsDelete(), e.Value(), e.SeqNum()}
}

func verifSameVisible(a, b verifVisible, id string) {
	// a deleted key and an absent key are the same to a reader
	la, lb := a.found && !a.del, b.found && !b.del
	verif.Assert(la == lb, id+"-liveness-unchanged")
	if la && lb {
		verif.Assert(bytes.Equal(a.val, b.val), id+"-value-unchanged")
		verif.Assert(a.seq == b.seq, id+"-version-unchanged")
	}
}

func verifScanAll(ll *LevelList) []kv.Entry {
	var err error
	var out []kv.Entry
	for e := range ll.ScanPrefix(nil, &err) {
		out = append(out, e)
	}
	if err != nil {
		panic(err)
	}
	return out
}

// layout validity: below level 0 tables are sorted and disjoint; for one key newer versions
// are never beneath older ones (level 0: later tables are newer).
func verifLayoutValid(ll *LevelList, id string) {
	for li, level := range ll.levels {
		ts := level.tables.Slice()
		if li > 0 {
			for i := 1; i < len(ts); i++ {
				if len(ts[i-1].endKey) > 0 || len(ts[i].startKey) > 0 {
					verif.Assert(bytes.Compare(ts[i-1].endKey, ts[i].startKey) < 0, id+"-deeper-levels-sorted-and-disjoint")
				}
			}
		}
	}
	for _, k := range verifCKeys {
		var prev uint64
		have := false
		// walk from the newest place to the oldest: level 0 newest table first, then deeper levels
		l0 := ll.levels[0].tables.Slice()
		for i := len(l0) - 1; i >= 0; i-- {
			if e, err := l0[i].Get(k); err == nil {
				if have {
					verif.Assert(e.SeqNum() < prev, id+"-newer-never-beneath-older")
				}
				prev, have = e.SeqNum(), true
			}
		}
		for _, level := range ll.levels[1:] {
			for _, t := range level.tables.Slice() {
				if e, err := t.Get(k); err == nil {
					if have {
						verif.Assert(e.SeqNum() < prev, id+"-newer-never-beneath-older")
					}
					prev, have = e.SeqNum(), true
				}
			}
		}
	}
}

// Harness_C18_CompactStep: level layouts built from real tables: per level a shape-chosen
// number of tables (level 0: 0..2 overlapping; levels 1 and 2: 0..2 sorted disjoint;
// base: 0..1), one or two entries per table over keys {a,b,c}, sequence numbers consistent
// with the layout (deeper = older), values arbitrary, the newest entries optionally
// tombstones. Compactor settings make each of major / minor-L0 / minor-Lk fire. Compaction
// runs to a fixed point; after every step - optionally with a concurrent flush of a new
// level-0 table composed before or after it - every key's visible value and the full scan
// are unchanged and the layout is still valid.
func Harness_C18_CompactStep() {
	verif.Abstract("bloom.Filter")
	fs := storage.NewMemoryFilesystem()
	tw := NewTableWriter(fs, 0)
	seq := uint64(0)
	vlen := 1
	mk := func(keys []int, tomb bool) *Table {
		var es []*Entry
		for _, ki := range keys {
			seq++
			e := &Entry{key: verifCKeys[ki], seqNum: seq}
			if tomb {
				e.isDelete = true
			} else {
				e.value = make([]byte, vlen)
				e.value[0] = verif.Byte("v")
			}
			es = append(es, e)
		}
		t, err := tw.Write(func(yield func(kv.Entry) bool) {
			for _, e := range es {
				if !yield(e) {
					return
				}
			}
		})
		if err != nil {
			panic(err)
		}
		return t
	}
	rich := verif.Param("RICH", 0)
	// a sorted run of n disjoint tables for a deeper level
	run := func(n int) []*Table {
		switch n {
		case 1:
			ks := [][]int{{1}, {1, 2}, {0, 1, 2}, {0}, {0, 1}}[verif.Choose("run1", 3+2*rich)]
			return []*Table{mk(ks, false)}
		case 2:
			pair := [][2][]int{{{0}, {1}}, {{0, 1}, {2}}, {{0}, {1, 2}}, {{0}, {2}}, {{1}, {2}}}[verif.Choose("run2", 2+3*rich)]
			if verif.Choose("newest-entries-in-the-first-table-of-the-run", 2) == 1 {
				// a compacted run is in key order, not in sequence order
				second := mk(pair[1], false)
				return []*Table{mk(pair[0], false), second}
			}
			return []*Table{mk(pair[0], false), mk(pair[1], false)}
		}
		return nil
	}
	// oldest data first so that sequence numbers grow towards level 0
	// a large base level lets a major compaction reach its amplification goal part-way through a level
	vlen = []int{1, 9000}[verif.Choose("base-value-size", 2)]
	base := run(verif.Choose("base-tables", 2))
	vlen = 1
	l2 := run(verif.Choose("l2-tables", 1+verif.Param("L2", 1)))
	l1 := run(verif.Choose("l1-tables", 3))
	var l0 []*Table
	n0 := verif.Choose("l0-tables", 3)
	for i := 0; i < n0; i++ {
		ks := [][]int{{1}, {0, 1}, {0}, {2}, {1, 2}}[verif.Choose("l0-keys", 2+3*rich)]
		tomb := (rich == 1 || i == n0-1) && verif.Choose("l0-tombstone", 2) == 1
		l0 = append(l0, mk(ks, tomb))
	}
	ll := NewLevelListOfTables([][]*Table{l0, l1, l2, base})
	verifLayoutValid(ll, "initial")
	verif.Assert(ll.LatestSeqNum == seq, "latest-seq-num-is-the-newest-flushed-sequence-number")

	settings := verif.Choose("settings", 3)
	c := &Compactor{TableWriter: tw, LevelSizeMultiplier: 10,
		L0RunNumCompactionTrigger:   []int{1, 1, 2}[settings],
		MaxSizeAmplificationPercent: []int{50, 1 << 40, 1 << 40}[settings], // major, minor, minor
		SmallestLevelSize:           []int64{1 << 40, 1, 1}[settings],     // minor-Lk fires when a level holds anything
		TargetTableSize:             []int64{40, 1 << 20}[verif.Choose("target", 2)],
	}
	before := make([]verifVisible, len(verifCKeys))
	for i, k := range verifCKeys {
		before[i] = verifLookup(ll, k)
	}
	scanBefore := verifScanAll(ll)

	for step := 0; step < 4; step++ {
		cs, err := c.Compact(ll)
		verif.Assert(err == nil, "compact-succeeds")
		if cs == nil {
			break
		}
		// a flush may add a newer level-0 table concurrently: compose before or after
		flushMode := verif.Choose("concurrent-flush", 1+2*verif.Param("FLUSH", 1))
		var flushed *Table
		if flushMode > 0 && step == 0 {
			flushed = mk([]int{verif.Choose("flush-key", 3)}, false)
			fcs := &ChangeSet{}
			fcs.AddTables(0, flushed)
			if flushMode == 1 {
				ll = ll.NewWithChangeSet(fcs).NewWithChangeSet(cs)
			} else {
				ll = ll.NewWithChangeSet(cs).NewWithChangeSet(fcs)
			}
			// the flushed entry is the newest version of its key
			for i, k := range verifCKeys {
				if bytes.Equal(k, flushed.startKey) {
					before[i] = verifLookup(NewLevelListOfTables([][]*Table{{flushed}}), k)
				}
			}
			scanBefore = nil
		} else {
			ll = ll.NewWithChangeSet(cs)
		}
		for _, r := range cs.removals {
			present := false
			for _, lv := range ll.levels {
				if lv.tables.Has(r) {
					present = true
				}
			}
			verif.Assert(!present, "merged-tables-are-removed")
		}
		for i, k := range verifCKeys {
			verifSameVisible(before[i], verifLookup(ll, k), "get")
		}
		if scanBefore != nil {
			after := verifScanAll(ll)
			verif.Assert(len(after) == len(scanBefore), "scan-same-keys")
			if len(after) == len(scanBefore) {
				for i := range after {
					verif.Assert(bytes.Equal(after[i].Key(), scanBefore[i].Key()) && bytes.Equal(after[i].Value(), scanBefore[i].Value()), "scan-same-entries")
				}
			}
		}
		verifLayoutValid(ll, "after-step")
		// the WAL truncation / checkpoint start marker: the newest sequence number that reached the
		// tables never moves backwards and is never ahead of what was flushed
		verif.Assert(ll.LatestSeqNum == seq, "latest-seq-num-is-the-newest-flushed-sequence-number")
	}
	verif.Reached()
}

// Harness_C18_RunInstalledInKeyOrder: a compaction hands its output run (2..3 tables in key
// order, whose ages - smallest sequence numbers - are in an arbitrary order) to a level below
// level 0 through a change set, next to an optional older run: the level stays a sorted run,
// and every key of the run is found by Get and by a prefix scan.
func Harness_C18_RunInstalledInKeyOrder() {
	verif.Abstract("bloom.Filter")
	fs := storage.NewMemoryFilesystem()
	tw := NewTableWriter(fs, 0)
	n := 2 + verif.Choose("tables", 2)
	keys := [][]byte{[]byte("a"), []byte("c"), []byte("e")}[:n]
	// the age order of the tables: a permutation chosen by shape
	perms := [][]int{{0, 1, 2}, {2, 1, 0}, {1, 0, 2}, {0, 2, 1}, {2, 0, 1}, {1, 2, 0}}
	perm := perms[verif.Choose("age-order", len(perms))]
	seqOf := make([]uint64, 3)
	for age, ti := range perm {
		seqOf[ti] = uint64(10 + age)
	}
	tables := make([]*Table, n)
	vals := make([][]byte, n)
	for i := 0; i < n; i++ {
		vals[i] = []byte{verif.Byte("v")}
		e := &Entry{key: keys[i], seqNum: seqOf[i], value: vals[i]}
		t, err := tw.Write(func(yield func(kv.Entry) bool) { yield(e) })
		if err != nil {
			panic(err)
		}
		tables[i] = t
	}
	level := 1 + verif.Choose("level", 2)
	ll := NewEmptyLevelList(4)
	cs := &ChangeSet{}
	cs.AddTables(level, tables...)
	ll = ll.NewWithChangeSet(cs)
	verifLayoutValid(ll, "installed")
	for i, k := range keys {
		got := verifLookup(ll, k)
		verif.Assert(got.found && !got.del && bytes.Equal(got.val, vals[i]), "key-of-the-installed-run-found")
	}
	verif.Assert(len(verifScanAll(ll)) == n, "scan-yields-the-whole-run")
	verif.Reached()
}
