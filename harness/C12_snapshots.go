package snapshots

import (
	"bytes"

	"reduction.dev/reduction/connectors"
	"reduction.dev/reduction/proto/jobpb"
	"reduction.dev/reduction/proto/snapshotpb"
	verif "reduction.dev/reduction/zz_verif"
)

type verifSplitter struct {
	connectors.UnimplementedSourceSplitter
	state []byte
}

func (s *verifSplitter) Checkpoint() []byte { return s.state }

type verifPending struct {
	id        uint64
	ops       map[string]bool
	runners   map[string]bool
	states    [][]byte
	savepoint bool
}

func (p *verifPending) complete() bool {
	for _, v := range p.ops {
		if !v {
			return false
		}
	}
	for _, v := range p.runners {
		if !v {
			return false
		}
	}
	return true
}

func verifNewStore(loc *verifLoc, retained chan []uint64) *Store {
	s := NewStore(&NewStoreParams{FileStore: loc, CheckpointsPath: "checkpoints", SavepointsPath: "savepoints", RetainedCheckpointsUpdated: retained})
	s.RegisterSourceSplitter(&verifSplitter{state: []byte("splitter")})
	return s
}

func verifSnapshotFiles(loc *verifLoc) int {
	n := 0
	for _, p := range loc.paths {
		if len(p) > 9 && p[len(p)-9:] == ".snapshot" {
			n++
		}
	}
	return n
}

// Harness_C12_StoreFSM: the job-checkpoint store under every sequence of K calls
// create-checkpoint / create-savepoint / operator ack / source-runner ack (from members,
// duplicates, wrong ids, foreign senders) / restart / new assembly abandoning the checkpoint
// in progress, against a reference state machine.
func Harness_C12_StoreFSM() {
	loc := &verifLoc{}
	retained := make(chan []uint64, 16)
	store := verifNewStore(loc, retained)
	nOps := verif.IntRange("operators", 1, 2)
	nRun := verif.IntRange("runners", 1, 2)
	opIDs := []string{"o1", "o2"}[:nOps]
	runIDs := []string{"r1", "r2"}[:nRun]
	opSenders := append(append([]string{}, opIDs...), "zz")
	runSenders := append(append([]string{}, runIDs...), "zz")

	var pending *verifPending
	var lastID uint64      // last id handed out
	var published uint64   // id of the current completed checkpoint (0 = none)
	var fresh bool         // the published checkpoint was completed by this store instance (not loaded)
	var pubStates [][]byte // split states of the published checkpoint
	files := 0

	k := verif.Param("K", 5)
	for step := 0; step < k; step++ {
		op := verif.Choose("op", 6)
		switch op {
		case 5: // the job starts a new assembly while a checkpoint may be in progress
			store.AbandonPendingCheckpoint()
			pending = nil // its id stays handed out: later ids are larger, late acks for it are stale
		case 0, 1:
			save := op == 1
			if !save {
				id, err := store.CreateCheckpoint(opIDs, runIDs)
				if pending != nil {
					verif.Assert(err == ErrCheckpointInProgress, "at-most-one-checkpoint-in-progress")
				} else {
					verif.Assert(err == nil, "create-succeeds-when-idle")
					verif.Assert(id > lastID, "ids-strictly-increase")
					lastID = id
					pending = &verifPending{id: id, ops: map[string]bool{}, runners: map[string]bool{}}
				}
			} else {
				id, created, err := store.CreateSavepoint(opIDs, runIDs)
				switch {
				case pending != nil && pending.savepoint:
					verif.Assert(err != nil, "second-savepoint-request-rejected")
				case pending != nil:
					verif.Assert(err == nil && !created && id == pending.id, "savepoint-folds-into-checkpoint-in-progress")
					pending.savepoint = true
				default:
					verif.Assert(err == nil && created && id > lastID, "savepoint-starts-a-checkpoint-when-idle")
					lastID = id
					pending = &verifPending{id: id, ops: map[string]bool{}, runners: map[string]bool{}, savepoint: true}
				}
			}
			if pending != nil && len(pending.ops) == 0 && len(pending.runners) == 0 {
				for _, o := range opIDs {
					pending.ops[o] = false
				}
				for _, r := range runIDs {
					pending.runners[r] = false
				}
			}
		case 2: // operator ack
			sender := opSenders[verif.Choose("sender", len(opSenders))]
			id := lastID + uint64(verif.Choose("wrong-id", 2)) // the id handed out last, or one that was never handed out
			err := store.AddOperatorSnapshot(&snapshotpb.OperatorCheckpoint{CheckpointId: id, OperatorId: sender, DkvFileUri: "dkv/" + sender + "/checkpoints"})
			if pending == nil || id != pending.id {
				verif.Assert(err != nil, "ack-for-other-id-rejected")
				break
			}
			if done, member := pending.ops[sender]; member && !done {
				pending.ops[sender] = true
			}
		case 3: // source runner ack
			sender := runSenders[verif.Choose("sender", len(runSenders))]
			id := lastID + uint64(verif.Choose("wrong-id", 2))
			st := []byte{sender[1], verif.Byte("split-state")}
			err := store.AddSourceSnapshot(&jobpb.SourceRunnerCheckpointCompleteRequest{CheckpointId: id, SourceRunnerId: sender, SplitStates: [][]byte{st}})
			if pending == nil || id != pending.id {
				verif.Assert(err != nil, "ack-for-other-id-rejected")
				break
			}
			if done, member := pending.runners[sender]; member && !done {
				pending.runners[sender] = true
				pending.states = append(pending.states, st)
			} else if !member {
				verif.Assert(err != nil, "foreign-source-runner-rejected")
			}
		case 4: // job restart: new store over the same storage
			verif.Quiesce()
			store = verifNewStore(loc, retained)
			verif.Assert(store.LoadCheckpoint() == nil, "load-succeeds")
			pending = nil
			fresh = false
			lastID = published
		}
		// the asynchronous publication runs to completion
		verif.Quiesce()
		if pending != nil && len(pending.ops) > 0 && pending.complete() {
			published = pending.id
			pubStates = pending.states
			files++
			fresh = true
			pending = nil
		}
		cur := store.CurrentCheckpoint()
		if published == 0 {
			verif.Assert(cur == nil, "nothing-published-before-all-acks")
		} else {
			verif.Assert(cur != nil && cur.Id == published, "current-checkpoint-is-the-last-fully-acknowledged-one")
			if cur != nil && cur.Id == published {
				verif.Assert(len(cur.OperatorCheckpoints) == nOps, "one-entry-per-operator")
				if len(cur.OperatorCheckpoints) == nOps {
					for i, oc := range cur.OperatorCheckpoints {
						verif.Assert(oc.CheckpointId == published, "operator-entry-for-this-checkpoint")
						for j := 0; j < i; j++ {
							verif.Assert(cur.OperatorCheckpoints[j].OperatorId != oc.OperatorId, "operator-entries-distinct")
						}
					}
				}
			}
			if cur != nil && cur.Id == published && pubStates != nil && fresh {
				verif.Assert(len(cur.SourceCheckpoints) == 1, "one-source-checkpoint")
				got := cur.SourceCheckpoints[0].SplitStates
				verif.Assert(len(got) == len(pubStates), "split-states-reported-exactly-once-per-runner")
				if len(got) == len(pubStates) {
					for i := range got {
						verif.Assert(bytes.Equal(got[i], pubStates[i]), "split-states-as-reported")
					}
				}
			}
		}
		if published == 0 {
			verif.Assert(verifSnapshotFiles(loc) == 0, "no-snapshot-file-before-completion")
		} else {
			verif.Assert(verifSnapshotFiles(loc) >= 1, "published-checkpoint-has-a-file")
		}
	}
	verif.Reached()
}
