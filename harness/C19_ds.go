package ds

import (
	"bytes"

	verif "reduction.dev/reduction/zz_verif"
)

// ---------------------------------------------------------------- Heap

type verifItem struct {
	val int
	idx int
	in  bool
}

func verifHeapInvariant(h *Heap[*verifItem], model []*verifItem) {
	verif.Assert(h.Size() == len(model), "size-matches-contents")
	for i, it := range h.data {
		verif.Assert(it.idx == i, "assigned-index-is-position")
		if i > 0 {
			verif.Assert(h.data[(i-1)/2].val <= it.val, "heap-order")
		}
	}
}

// Harness_C19_Heap: binary heap with index assigner against a multiset reference, for every
// sequence of K operations Push(x) / Pop / Peek / Fix(i after changing element i).
func Harness_C19_Heap() {
	h := NewHeap(func(a, b *verifItem) int {
		if a.val < b.val {
			return -1
		}
		if a.val > b.val {
			return 1
		}
		return 0
	}, 0)
	h.SetIndexAssigner(func(it *verifItem, i int) { it.idx = i })
	var model []*verifItem
	k := verif.Param("K", 4)
	for step := 0; step < k; step++ {
		switch verif.Choose("op", 4) {
		case 0:
			it := &verifItem{val: verif.Int("x"), idx: -7}
			h.Push(it)
			model = append(model, it)
		case 1:
			got, ok := h.Pop()
			verif.Assert(ok == (len(model) > 0), "pop-ok-iff-non-empty")
			if ok {
				pos := -1
				for i, m := range model {
					if m == got {
						pos = i
					}
					verif.Assert(got.val <= m.val, "pop-returns-minimum")
				}
				verif.Assert(pos >= 0, "pop-returns-a-member")
				if pos >= 0 {
					model = append(model[:pos:pos], model[pos+1:]...)
				}
			}
		case 2:
			got, ok := h.Peek()
			verif.Assert(ok == (len(model) > 0), "peek-ok-iff-non-empty")
			if ok {
				for _, m := range model {
					verif.Assert(got.val <= m.val, "peek-returns-minimum")
				}
			}
		case 3:
			if len(model) == 0 {
				h.Fix(-1)
				break
			}
			i := verif.Choose("fix-index", len(model))
			h.data[i].val = verif.Int("newval")
			h.Fix(i)
		}
		verifHeapInvariant(h, model)
	}
	// drain: ascending order, every member exactly once
	prevSet := false
	prev := 0
	for len(model) > 0 {
		got, ok := h.Pop()
		verif.Assert(ok, "drain-pop-ok")
		if !ok {
			break
		}
		if prevSet {
			verif.Assert(prev <= got.val, "drain-ascending")
		}
		prev, prevSet = got.val, true
		pos := -1
		for i, m := range model {
			if m == got {
				pos = i
			}
		}
		verif.Assert(pos >= 0, "drain-returns-members-once")
		if pos < 0 {
			break
		}
		model = append(model[:pos:pos], model[pos+1:]...)
	}
	_, ok := h.Pop()
	verif.Assert(!ok, "empty-after-drain")
	verif.Reached()
}

// ---------------------------------------------------------------- PartitionedPriorityQueue

type verifPItem struct {
	part int
	val  int
}

// verifPart is a slice-backed QueuePartition kept sorted by val.
type verifPart struct {
	items []*verifPItem
	index int
}

func (p *verifPart) Peek() (*verifPItem, bool) {
	if len(p.items) == 0 {
		return nil, false
	}
	return p.items[0], true
}
func (p *verifPart) Pop() (*verifPItem, bool) {
	if len(p.items) == 0 {
		return nil, false
	}
	x := p.items[0]
	p.items = p.items[1:]
	return x, true
}
func (p *verifPart) Push(x *verifPItem) {
	i := 0
	for i < len(p.items) && p.items[i].val <= x.val {
		i++
	}
	p.items = append(p.items, nil)
	copy(p.items[i+1:], p.items[i:])
	p.items[i] = x
}
func (p *verifPart) IsEmpty() bool { return len(p.items) == 0 }
func (p *verifPart) Delete(x *verifPItem) {
	for i, it := range p.items {
		if it == x {
			p.items = append(p.items[:i:i], p.items[i+1:]...)
			return
		}
	}
}
func (p *verifPart) AssignIndex(i int) { p.index = i }
func (p *verifPart) Index() int        { return p.index }

// Harness_C19_PPQ: partitioned priority queue over P slice-backed partitions against a
// multiset reference, K operations Push / Pop / Peek / Delete / IsEmpty.
func Harness_C19_PPQ() {
	np := verif.IntRange("partitions", 1, verif.Param("P", 3))
	parts := make([]QueuePartition[*verifPItem], np)
	for i := range parts {
		parts[i] = &verifPart{}
	}
	q := NewPartitionedPriorityQueue(parts, func(a, b *verifPItem) int {
		if a.val < b.val {
			return -1
		}
		if a.val > b.val {
			return 1
		}
		return 0
	}, func(x *verifPItem) int { return x.part })
	var model []*verifPItem
	remove := func(x *verifPItem) bool {
		for i, m := range model {
			if m == x {
				model = append(model[:i:i], model[i+1:]...)
				return true
			}
		}
		return false
	}
	k := verif.Param("K", 4)
	for step := 0; step < k; step++ {
		switch verif.Choose("op", 4) {
		case 0:
			it := &verifPItem{part: verif.Choose("part", np), val: verif.Int("x")}
			q.Push(it)
			model = append(model, it)
		case 1:
			got, ok := q.Pop()
			verif.Assert(ok == (len(model) > 0), "pop-ok-iff-non-empty")
			if ok {
				for _, m := range model {
					verif.Assert(got.val <= m.val, "pop-returns-global-minimum")
				}
				verif.Assert(remove(got), "pop-returns-a-member")
			}
		case 2:
			got, ok := q.Peek()
			verif.Assert(ok == (len(model) > 0), "peek-ok-iff-non-empty")
			if ok {
				for _, m := range model {
					verif.Assert(got.val <= m.val, "peek-returns-global-minimum")
				}
			}
		case 3:
			if len(model) > 0 {
				x := model[verif.Choose("del", len(model))]
				q.Delete(x)
				remove(x)
			}
		}
		verif.Assert(q.IsEmpty() == (len(model) == 0), "is-empty-iff-no-members")
	}
	prevSet, prev := false, 0
	for len(model) > 0 {
		got, ok := q.Pop()
		verif.Assert(ok, "drain-pop-ok")
		if !ok {
			break
		}
		if prevSet {
			verif.Assert(prev <= got.val, "drain-ascending")
		}
		prev, prevSet = got.val, true
		if !remove(got) {
			verif.Assert(false, "drain-returns-members-once")
			break
		}
	}
	verif.Assert(q.IsEmpty(), "empty-after-drain")
	verif.Reached()
}

// ---------------------------------------------------------------- SortedCache

// Harness_C19_SortedCache: btree-backed sorted cache of byte-string keys against a list
// reference; byteSize must equal the total length of the contents (replacement of an equal
// key must not count twice).
func Harness_C19_SortedCache() {
	c := NewSortedCache(1 << 30)
	var model [][]byte
	find := func(k []byte) int {
		for i, m := range model {
			if bytes.Equal(m, k) {
				return i
			}
		}
		return -1
	}
	check := func() {
		var total uint64
		for _, m := range model {
			total += uint64(len(m))
		}
		verif.Assert(c.byteSize == total, "byte-size-matches-contents")
		verif.Assert(c.IsEmpty() == (len(model) == 0), "is-empty-iff-no-members")
		verif.Assert(c.tree.Len() == len(model), "length-matches-contents")
	}
	k := verif.Param("K", 4)
	for step := 0; step < k; step++ {
		switch verif.Choose("op", 5) {
		case 0:
			key := verif.Bytes("k", verif.IntRange("klen", 1, 2))
			c.Push(key)
			if i := find(key); i >= 0 {
				model[i] = key
			} else {
				model = append(model, key)
			}
		case 1, 2:
			last := false
			var got []byte
			var ok bool
			if verif.Choose("end", 2) == 0 {
				got, ok = c.Pop()
			} else {
				got, ok = c.PopLast()
				last = true
			}
			verif.Assert(ok == (len(model) > 0), "pop-ok-iff-non-empty")
			if ok {
				for _, m := range model {
					if last {
						verif.Assert(bytes.Compare(got, m) >= 0, "poplast-returns-maximum")
					} else {
						verif.Assert(bytes.Compare(got, m) <= 0, "pop-returns-minimum")
					}
				}
				i := find(got)
				verif.Assert(i >= 0, "pop-returns-a-member")
				if i >= 0 {
					model = append(model[:i:i], model[i+1:]...)
				}
			}
		case 3:
			got, ok := c.Peek()
			verif.Assert(ok == (len(model) > 0), "peek-ok-iff-non-empty")
			if ok {
				for _, m := range model {
					verif.Assert(bytes.Compare(got, m) <= 0, "peek-returns-minimum")
				}
			}
		case 4:
			key := verif.Bytes("d", verif.IntRange("dlen", 1, 2))
			c.Delete(key)
			if i := find(key); i >= 0 {
				model = append(model[:i:i], model[i+1:]...)
			}
		}
		check()
	}
	verif.Reached()
}

// ---------------------------------------------------------------- Set

// Harness_C19_Set: insertion-ordered set against a slice reference (Add / Added / Without /
// Diff / Has), including persistence of the receiver for the copying operations.
func Harness_C19_Set() {
	s := NewSet[int](0)
	var model []int
	has := func(l []int, x int) bool {
		for _, m := range l {
			if m == x {
				return true
			}
		}
		return false
	}
	same := func(got []int, want []int, id string) {
		verif.Assert(len(got) == len(want), id+"-length")
		if len(got) == len(want) {
			for i := range got {
				verif.Assert(got[i] == want[i], id+"-order-and-content")
			}
		}
	}
	k := verif.Param("K", 4)
	for step := 0; step < k; step++ {
		x := verif.Int("x")
		switch verif.Choose("op", 4) {
		case 0:
			s.Add(x)
			if !has(model, x) {
				model = append(model, x)
			}
		case 1:
			before := append([]int(nil), model...)
			n := s.Added(x)
			want := append([]int(nil), model...)
			if !has(model, x) {
				want = append(want, x)
			}
			same(n.Slice(), want, "added")
			same(s.Slice(), before, "added-leaves-receiver")
			s, model = n, want
		case 2:
			before := append([]int(nil), model...)
			n := s.Without(x)
			var want []int
			for _, m := range model {
				if m != x {
					want = append(want, m)
				}
			}
			same(n.Slice(), want, "without")
			same(s.Slice(), before, "without-leaves-receiver")
			verif.Assert(!n.Has(x), "without-removes-membership")
			s, model = n, want
		case 3:
			other := SetOf(x)
			d := s.Diff(other)
			var want []int
			for _, m := range model {
				if m != x {
					want = append(want, m)
				}
			}
			same(d.Slice(), want, "diff")
		}
		verif.Assert(s.Has(x) == has(model, x), "has-iff-member")
		verif.Assert(s.Size() == len(model), "size")
		same(s.Slice(), model, "contents")
	}
	verif.Reached()
}

// ---------------------------------------------------------------- SortedMap

// Harness_C19_SortedMap: sorted map against a sorted association list (Set / Delete / Get /
// Keys / Values / All).
func Harness_C19_SortedMap() {
	m := NewSortedMap[int, int]()
	var keys, vals []int // reference, kept sorted by key
	find := func(k int) int {
		for i, x := range keys {
			if x == k {
				return i
			}
		}
		return -1
	}
	k := verif.Param("K", 4)
	for step := 0; step < k; step++ {
		key := verif.Int("k")
		switch verif.Choose("op", 3) {
		case 0:
			v := verif.Int("v")
			isNew := m.Set(key, v)
			i := find(key)
			verif.Assert(isNew == (i < 0), "set-reports-new-key")
			if i >= 0 {
				vals[i] = v
			} else {
				j := 0
				for j < len(keys) && keys[j] < key {
					j++
				}
				keys = append(keys, 0)
				vals = append(vals, 0)
				copy(keys[j+1:], keys[j:])
				copy(vals[j+1:], vals[j:])
				keys[j], vals[j] = key, v
			}
		case 1:
			removed := m.Delete(key)
			i := find(key)
			verif.Assert(removed == (i >= 0), "delete-reports-presence")
			if i >= 0 {
				keys = append(keys[:i:i], keys[i+1:]...)
				vals = append(vals[:i:i], vals[i+1:]...)
			}
		case 2:
			v, ok := m.Get(key)
			i := find(key)
			verif.Assert(ok == (i >= 0), "get-ok-iff-present")
			if ok && i >= 0 {
				verif.Assert(v == vals[i], "get-returns-last-value")
			}
			verif.Assert(m.Has(key) == (i >= 0), "has-iff-present")
		}
		verif.Assert(m.Size() == len(keys), "size")
		// the ordered views are looked at after this step or not (lazily maintained order must
		// survive any number of unobserved mutations); always after the last step
		if step < k-1 && verif.Choose("observe-order", 2) == 0 {
			continue
		}
		gk, gv := m.Keys(), m.Values()
		verif.Assert(len(gk) == len(keys) && len(gv) == len(keys), "keys-values-length")
		if len(gk) == len(keys) && len(gv) == len(keys) {
			for i := range keys {
				verif.Assert(gk[i] == keys[i], "keys-sorted-and-complete")
				verif.Assert(gv[i] == vals[i], "values-in-key-order")
			}
		}
		n := 0
		for ak, av := range m.All() {
			if n < len(keys) {
				verif.Assert(ak == keys[n] && av == vals[n], "all-in-key-order")
			}
			n++
		}
		verif.Assert(n == len(keys), "all-yields-every-entry-once")
	}
	verif.Reached()
}

// Harness_C19_PPQDeep: the partitioned priority queue with enough partitions for a heap of
// depth three (4..P): M items with arbitrary values are pushed into shape-chosen partitions
// (or the partitions hold them already when the queue is built, as after a restore),
// optionally one of them is deleted again, then the queue is drained. Every Peek/Pop must
// return the global minimum (so the drain is ascending) and each item exactly once.
func Harness_C19_PPQDeep() {
	np := verif.IntRange("partitions", 4, verif.Param("P", 4))
	parts := make([]QueuePartition[*verifPItem], np)
	for i := range parts {
		parts[i] = &verifPart{}
	}
	cmp := func(a, b *verifPItem) int {
		if a.val < b.val {
			return -1
		}
		if a.val > b.val {
			return 1
		}
		return 0
	}
	var model []*verifPItem
	m := verif.Param("M", 4)
	// the queue is built over empty partitions and filled through Push, or - as after a restore -
	// over partitions that already hold their items
	preloaded := verif.Choose("partitions-hold-items-when-the-queue-is-built", 2) == 1
	var q *PartitionedPriorityQueue[*verifPItem]
	if !preloaded {
		q = NewPartitionedPriorityQueue(parts, cmp, func(x *verifPItem) int { return x.part })
	}
	for i := 0; i < m; i++ {
		it := &verifPItem{part: verif.Choose("part", np), val: int(verif.Byte("x"))}
		if preloaded {
			parts[it.part].Push(it)
		} else {
			q.Push(it)
		}
		model = append(model, it)
	}
	if preloaded {
		q = NewPartitionedPriorityQueue(parts, cmp, func(x *verifPItem) int { return x.part })
	}
	if got, ok := q.Peek(); true {
		verif.Assert(ok, "peek-ok")
		if ok {
			isMin := true
			for _, mm := range model {
				isMin = verif.And(isMin, got.val <= mm.val)
			}
			verif.Assert(isMin, "peek-returns-global-minimum")
		}
	}
	if verif.Param("DEL", 0) == 1 && verif.Choose("delete-one", 2) == 1 {
		i := verif.Choose("del", len(model))
		q.Delete(model[i])
		model = append(model[:i:i], model[i+1:]...)
	}
	for len(model) > 0 {
		got, ok := q.Pop()
		verif.Assert(ok, "drain-pop-ok")
		if !ok {
			break
		}
		found := -1
		isMin := true
		for i, mm := range model {
			isMin = verif.And(isMin, got.val <= mm.val)
			if mm == got {
				found = i
			}
		}
		verif.Assert(isMin, "pop-returns-global-minimum")
		verif.Assert(found >= 0, "drain-returns-members-once")
		if found < 0 {
			break
		}
		model = append(model[:found:found], model[found+1:]...)
	}
	verif.Assert(q.IsEmpty(), "empty-after-drain")
	verif.Reached()
}
