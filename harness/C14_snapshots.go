package snapshots

import (
	"bytes"
	"io"
	"strings"

	"google.golang.org/protobuf/proto"
	"reduction.dev/reduction/dkv"
	"reduction.dev/reduction/dkv/recovery"
	"reduction.dev/reduction/dkv/storage"
	"reduction.dev/reduction/proto/jobpb"
	"reduction.dev/reduction/proto/snapshotpb"
	verif "reduction.dev/reduction/zz_verif"
)

func verifReadAll(fs storage.FileSystem, path string) []byte {
	b, err := io.ReadAll(&storage.Cursor{File: fs.Open(path)})
	if err != nil {
		panic(err)
	}
	return b
}

// verifExport copies every file of the in-memory DKV file system into the storage location
// under its URI, as the shared working storage of a deployment holds them.
func verifExport(mem *storage.MemoryFilesystem, loc *verifLoc) {
	for _, p := range mem.List() {
		loc.Write("memory:///"+p, bytes.NewBuffer(verifReadAll(mem, "/"+p)))
	}
}

// verifImport builds a fresh DKV file system from the files of the storage location.
func verifImport(loc *verifLoc) *storage.MemoryFilesystem {
	mem := storage.NewMemoryFilesystem()
	for i, p := range loc.paths {
		if strings.HasPrefix(p, "memory:///") {
			f := mem.New(strings.TrimPrefix(p, "memory://"))
			f.Write(loc.data[i])
			if err := f.Save(); err != nil {
				panic(err)
			}
		}
	}
	return mem
}

var verifSPKeys = [][]byte{[]byte("a"), []byte("b"), []byte("c")}

// Harness_C14_Artifact: 1-2 operators with real DKV databases (state only in memory/WAL, or
// also in one or several SST tables, by shape; values arbitrary) take a DKV checkpoint; the
// job checkpoint is written and turned into a savepoint artifact; then ALL working storage
// is deleted and a new store is started from the savepoint URI. The job checkpoint loaded
// must equal the one saved, every file the operators' checkpoints reference must be back at
// its original URI with its original content, and databases opened from the restored files
// must hold exactly the checkpointed state.
func Harness_C14_Artifact() {
	verif.FixedRand(3, 1, 4, 1, 5, 9, 2, 6)
	verif.Abstract("bloom.Filter")
	mem := storage.NewMemoryFilesystem()
	loc := &verifLoc{}
	nOps := verif.IntRange("operators", 1, verif.Param("OPS", 2))
	snap := newJobSnapshot(7, nil, nil)
	type opState struct {
		handle recovery.CheckpointHandle
		vals   [][]byte
		dir    string
		first  []byte // the first value written
		simple bool   // exactly one table flushed, nothing compacted, not recovered under a new id
	}
	var ops []opState
	for o := 0; o < nOps; o++ {
		dir := []string{"w/op1", "w/op2"}[o]
		db := dkv.Open(dkv.DBOptions{FileSystem: mem.WithWorkingDir(dir), MemTableSize: 20, TargetFileSize: 64, L0TableNumCompactionTrigger: 2}, nil)
		vals := make([][]byte, len(verifSPKeys))
		// how much of the state has reached tables: 0 = WAL only, 1 = one flush, 2 = flushes + compaction
		// (an even number of writes leaves nothing unflushed: the WAL has nothing to replay)
		depth := verif.Choose("depth", 5)
		writes := []int{1, 3, 5, 2, 4}[depth]
		var first []byte
		for w := 0; w < writes; w++ {
			i := w % len(verifSPKeys)
			vals[i] = verif.Bytes("v", 1)
			if w == 0 {
				first = vals[i]
			}
			db.Put(verifSPKeys[i], vals[i])
		}
		if depth > 0 {
			if err := db.WaitOnTasks(); err != nil {
				panic(err)
			}
		}
		simple := depth == 1
		if verif.Param("GEN", 1) == 1 && verif.Choose("recovered-under-a-new-operator-id", 2) == 1 {
			simple = false
			// the state above belongs to a previous operator: it checkpoints, and a replacement with a
			// new id (= a new directory) recovers from that checkpoint, writes once more and takes the
			// checkpoint the savepoint is made of. It still references the old operator's files.
			if err := db.WaitOnTasks(); err != nil {
				panic(err)
			}
			h0, err := db.Checkpoint(6)()
			verif.Assert(err == nil, "dkv-checkpoint-succeeds")
			dir = []string{"w/op1b", "w/op2b"}[o]
			db = dkv.Open(dkv.DBOptions{FileSystem: mem.WithWorkingDir(dir), MemTableSize: 20, TargetFileSize: 64, L0TableNumCompactionTrigger: 2}, []recovery.CheckpointHandle{h0})
			vals[0] = verif.Bytes("v", 1)
			db.Put(verifSPKeys[0], vals[0])
		}
		h, err := db.Checkpoint(7)()
		verif.Assert(err == nil, "dkv-checkpoint-succeeds")
		ops = append(ops, opState{h, vals, dir, first, simple})
		snap.operatorCheckpoints = append(snap.operatorCheckpoints, &snapshotpb.OperatorCheckpoint{CheckpointId: 7, OperatorId: dir, DkvFileUri: h.URI})
	}
	if nOps == 2 && ops[0].simple && ops[1].simple && verif.Param("MERGE", 1) == 1 && verif.Choose("scaled-in-before-the-savepoint", 2) == 1 {
		// the job was scaled in: one operator recovered from both checkpoints above (each earlier
		// operator had flushed exactly one table, so it references two tables and two logs whose
		// names coincide and whose directories differ), wrote once more
		// and took the checkpoint the savepoint is made of. Checked at the level of files only.
		// (the two earlier operators' first files differ in content, so that one standing in for the
		// other is visible)
		verif.Assume(ops[0].first[0] != ops[1].first[0])
		dir := "w/opm"
		db := dkv.Open(dkv.DBOptions{FileSystem: mem.WithWorkingDir(dir), MemTableSize: 20, TargetFileSize: 64, L0TableNumCompactionTrigger: 2},
			[]recovery.CheckpointHandle{ops[0].handle, ops[1].handle})
		db.Put(verifSPKeys[0], verif.Bytes("v", 1))
		h, err := db.Checkpoint(8)()
		verif.Assert(err == nil, "dkv-checkpoint-succeeds")
		ops = []opState{{h, nil, dir, nil, false}}
		nOps = 1
		snap.operatorCheckpoints = []*snapshotpb.OperatorCheckpoint{{CheckpointId: 8, OperatorId: dir, DkvFileUri: h.URI}}
	}
	snap.splitStates = [][]byte{{verif.Byte("split-state")}}
	snap.splitterState = []byte("splitter")
	verifExport(mem, loc)

	// what the savepoint must preserve
	type fileCopy struct {
		uri  string
		data []byte
	}
	var needed []fileCopy
	for _, op := range ops {
		data, err := loc.Read(op.handle.URI)
		verif.Assert(err == nil, "checkpoints-file-present")
		files, err := recovery.ListFiles(bytes.NewBuffer(data))
		verif.Assert(err == nil, "list-files-succeeds")
		for _, f := range append(files, op.handle.URI) {
			d, err := loc.Read(f)
			verif.Assert(err == nil, "referenced-file-present-before-savepoint")
			needed = append(needed, fileCopy{f, d})
		}
	}

	// publish the job checkpoint and make the savepoint
	data, err := snap.marshal()
	verif.Assert(err == nil, "marshal")
	ckptURI, err := loc.Write("checkpoints/job-"+pathSegment(snap.id)+".snapshot", bytes.NewBuffer(data))
	verif.Assert(err == nil, "write-job-checkpoint")
	spURI, err := CreateSavepointArtifact(loc, "savepoints", ckptURI, snap)
	verif.Assert(err == nil, "savepoint-created")

	// delete all working storage: only the savepoint directory survives
	var doomed []string
	for _, p := range loc.paths {
		if !strings.HasPrefix(p, "savepoints/") {
			doomed = append(doomed, p)
		}
	}
	loc.Remove(doomed...)

	// start from the savepoint
	store := NewStore(&NewStoreParams{SavepointURI: spURI, FileStore: loc, CheckpointsPath: "checkpoints", SavepointsPath: "savepoints"})
	verif.Assert(store.LoadCheckpoint() == nil, "load-from-savepoint-succeeds")
	cur := store.CurrentCheckpoint()
	verif.Assert(cur != nil && cur.Id == snap.id, "job-checkpoint-restored")
	if cur != nil {
		verif.Assert(len(cur.OperatorCheckpoints) == nOps, "operator-entries-restored")
		verif.Assert(len(cur.SourceCheckpoints) == 1 && len(cur.SourceCheckpoints[0].SplitStates) == 1 &&
			bytes.Equal(cur.SourceCheckpoints[0].SplitStates[0], snap.splitStates[0]), "source-positions-restored")
		verif.Assert(len(cur.SourceCheckpoints) == 1 && bytes.Equal(cur.SourceCheckpoints[0].SplitterState, snap.splitterState), "splitter-state-restored")
	}
	for _, n := range needed {
		d, err := loc.Read(n.uri)
		verif.Assert(err == nil, "referenced-file-restored-at-its-original-uri")
		if err == nil {
			verif.Assert(bytes.Equal(d, n.data), "restored-file-has-original-content")
		}
	}

	// operators opened from the restored files hold the checkpointed state
	mem2 := verifImport(loc)
	for _, op := range ops {
		db := dkv.Open(dkv.DBOptions{FileSystem: mem2.WithWorkingDir(op.dir), MemTableSize: 20, TargetFileSize: 64, L0TableNumCompactionTrigger: 2}, []recovery.CheckpointHandle{op.handle})
		if op.vals == nil {
			continue
		}
		for i, k := range verifSPKeys {
			e, err := db.Get(k)
			if op.vals[i] == nil {
				verif.Assert(err != nil, "absent-key-absent-after-restore")
			} else {
				verif.Assert(err == nil && bytes.Equal(e.Value(), op.vals[i]), "operator-state-restored")
			}
		}
	}
	_ = proto.Marshal
	verif.Reached()
}

// Harness_C14_Fold: a savepoint requested while a checkpoint is in progress - before any
// acknowledgement, after the operator's or after the source runner's - folds into it: no second
// checkpoint is started, a second savepoint request is refused, the acknowledgements already
// received count, the checkpoint completes with the remaining ones, the savepoint artifact is
// written and restores, and the next periodic checkpoint can start. The job restored from the
// savepoint then takes a savepoint of its own (larger id), which completes and restores too.
func Harness_C14_Fold() {
	verif.FixedRand(3, 1, 4, 1, 5, 9, 2, 6)
	verif.Abstract("bloom.Filter")
	mem := storage.NewMemoryFilesystem()
	loc := &verifLoc{}
	db := dkv.Open(dkv.DBOptions{FileSystem: mem.WithWorkingDir("w/o1"), MemTableSize: 20, TargetFileSize: 64, L0TableNumCompactionTrigger: 2}, nil)
	val := verif.Bytes("v", 1)
	db.Put(verifSPKeys[0], val)
	store := NewStore(&NewStoreParams{FileStore: loc, CheckpointsPath: "checkpoints", SavepointsPath: "savepoints", RetainedCheckpointsUpdated: make(chan []uint64, 4), ErrChan: make(chan error, 4)})
	store.RegisterSourceSplitter(&verifSplitter{state: []byte("splitter")})
	id, err := store.CreateCheckpoint([]string{"o1"}, []string{"r1"})
	verif.Assert(err == nil, "create")
	h, err := db.Checkpoint(id)()
	verif.Assert(err == nil, "dkv-checkpoint-succeeds")
	verifExport(mem, loc)
	ackOp := func() {
		verif.Assert(store.AddOperatorSnapshot(&snapshotpb.OperatorCheckpoint{CheckpointId: id, OperatorId: "o1", DkvFileUri: h.URI}) == nil, "operator-ack-accepted")
	}
	ackRunner := func() {
		verif.Assert(store.AddSourceSnapshot(&jobpb.SourceRunnerCheckpointCompleteRequest{CheckpointId: id, SourceRunnerId: "r1", SplitStates: [][]byte{{7}}}) == nil, "runner-ack-accepted")
	}
	when := verif.Choose("savepoint-requested", 3) // 0 before any ack, 1 after the operator's, 2 after the source runner's
	if when == 1 {
		ackOp()
	}
	if when == 2 {
		ackRunner()
	}
	sid, created, err := store.CreateSavepoint([]string{"o1"}, []string{"r1"})
	verif.Assert(err == nil && !created && sid == id, "savepoint-folds-into-checkpoint-in-progress")
	_, _, err = store.CreateSavepoint([]string{"o1"}, []string{"r1"})
	verif.Assert(err != nil, "second-savepoint-request-rejected")
	_, err = store.CreateCheckpoint([]string{"o1"}, []string{"r1"})
	verif.Assert(err == ErrCheckpointInProgress, "no-second-checkpoint-started")
	if when != 1 {
		ackOp()
	}
	if when != 2 {
		ackRunner()
	}
	verif.Quiesce()
	cur := store.CurrentCheckpoint()
	verif.Assert(cur != nil && cur.Id == id, "folded-checkpoint-completes-with-the-acknowledgements-given")
	spURI := ""
	for _, p := range loc.paths {
		if strings.HasPrefix(p, "savepoints/") && strings.HasSuffix(p, "/job.savepoint") {
			spURI = p
		}
	}
	verif.Assert(spURI != "", "savepoint-artifact-written")
	// the running job is not disturbed: the next periodic checkpoint starts
	nid, err := store.CreateCheckpoint([]string{"o1"}, []string{"r1"})
	verif.Assert(err == nil && nid > id, "next-checkpoint-starts-after-the-savepoint")
	if spURI != "" {
		var doomed []string
		for _, p := range loc.paths {
			if !strings.HasPrefix(p, "savepoints/") {
				doomed = append(doomed, p)
			}
		}
		loc.Remove(doomed...)
		restored := NewStore(&NewStoreParams{SavepointURI: spURI, FileStore: loc, CheckpointsPath: "checkpoints", SavepointsPath: "savepoints"})
		verif.Assert(restored.LoadCheckpoint() == nil, "load-from-savepoint-succeeds")
		rc := restored.CurrentCheckpoint()
		verif.Assert(rc != nil && rc.Id == id && len(rc.OperatorCheckpoints) == 1, "savepoint-restores-the-folded-checkpoint")
		mem2 := verifImport(loc)
		db2 := dkv.Open(dkv.DBOptions{FileSystem: mem2.WithWorkingDir("w/o1"), MemTableSize: 20, TargetFileSize: 64, L0TableNumCompactionTrigger: 2}, []recovery.CheckpointHandle{h})
		e, err := db2.Get(verifSPKeys[0])
		verif.Assert(err == nil && bytes.Equal(e.Value(), val), "operator-state-restored")

		// the job started from the savepoint keeps running: its own first savepoint gets a larger id,
		// completes, and restores in turn (savepoint -> restore -> savepoint -> restore)
		restored.RegisterSourceSplitter(&verifSplitter{state: []byte("splitter2")})
		val2 := verif.Bytes("v2", 1)
		db2.Put(verifSPKeys[1], val2)
		sid2, created2, err := restored.CreateSavepoint([]string{"o1"}, []string{"r1"})
		verif.Assert(err == nil && created2, "savepoint-of-the-restored-job-starts-a-checkpoint")
		verif.Assert(sid2 > id, "checkpoint-ids-grow-across-a-restart-from-a-savepoint")
		h2, err := db2.Checkpoint(sid2)()
		verif.Assert(err == nil, "dkv-checkpoint-succeeds")
		verifExport(mem2, loc)
		verif.Assert(restored.AddOperatorSnapshot(&snapshotpb.OperatorCheckpoint{CheckpointId: sid2, OperatorId: "o1", DkvFileUri: h2.URI}) == nil, "operator-ack-accepted")
		verif.Assert(restored.AddSourceSnapshot(&jobpb.SourceRunnerCheckpointCompleteRequest{CheckpointId: sid2, SourceRunnerId: "r1", SplitStates: [][]byte{{9}}}) == nil, "runner-ack-accepted")
		verif.Quiesce()
		rc2 := restored.CurrentCheckpoint()
		verif.Assert(rc2 != nil && rc2.Id == sid2, "savepoint-of-the-restored-job-completes")
		spURI2 := "savepoints/" + pathSegment(sid2) + "/job.savepoint"
		verif.Assert(sid2 != id && loc.find(spURI2) >= 0, "second-savepoint-artifact-written")
		if sid2 != id && loc.find(spURI2) >= 0 {
			var doomed2 []string
			for _, p := range loc.paths {
				if !strings.HasPrefix(p, "savepoints/") {
					doomed2 = append(doomed2, p)
				}
			}
			loc.Remove(doomed2...)
			third := NewStore(&NewStoreParams{SavepointURI: spURI2, FileStore: loc, CheckpointsPath: "checkpoints", SavepointsPath: "savepoints"})
			verif.Assert(third.LoadCheckpoint() == nil, "load-from-second-savepoint-succeeds")
			tc := third.CurrentCheckpoint()
			verif.Assert(tc != nil && tc.Id == sid2, "second-savepoint-restores-its-checkpoint")
			db3 := dkv.Open(dkv.DBOptions{FileSystem: verifImport(loc).WithWorkingDir("w/o1"), MemTableSize: 20, TargetFileSize: 64, L0TableNumCompactionTrigger: 2}, []recovery.CheckpointHandle{h2})
			e1, err1 := db3.Get(verifSPKeys[0])
			e2, err2 := db3.Get(verifSPKeys[1])
			verif.Assert(err1 == nil && bytes.Equal(e1.Value(), val) && err2 == nil && bytes.Equal(e2.Value(), val2), "operator-state-restored-from-the-second-savepoint")
		}
	}
	verif.Reached()
}
