package fields

import (
	"bytes"
	"errors"
	"io"

	"reduction.dev/reduction/dkv/storage"
	verif "reduction.dev/reduction/zz_verif"
)

// Harness_C17_Fields: the field codecs of SST/WAL files. A record of every field kind with
// arbitrary content is read back identically, Skip* advances exactly like Read*, reading past
// the end reports EOF, and a bounded cursor never reads past its bound.
func Harness_C17_Fields() {
	fs := storage.NewMemoryFilesystem()
	f := fs.New("f")
	a := verif.Bytes("a", verif.IntRange("alen", 0, verif.Param("L", 2)))
	u64 := verif.U64("u64")
	tomb := verif.Bool("tomb")
	u32 := verif.U32("u32")
	b := verif.Bytes("b", verif.IntRange("blen", 0, verif.Param("L", 2)))
	n := MustWriteVarBytes(f, a)
	afterA := n
	n += MustWriteUint64(f, u64)
	n += MustWriteTombstone(f, tomb)
	n += MustWriteUint32(f, u32)
	n += MustWriteVarBytes(f, b)
	verif.Assert(n == 4+len(a)+8+1+4+4+len(b), "written-size")
	if err := f.Save(); err != nil {
		panic(err)
	}

	cur := &storage.Cursor{File: f}
	ra, err := ReadVarBytes(cur)
	verif.Assert(err == nil && bytes.Equal(ra, a), "varbytes-round-trip")
	r64, err := ReadUint64(cur)
	verif.Assert(err == nil && r64 == u64, "uint64-round-trip")
	rt, err := ReadTombstone(cur)
	verif.Assert(err == nil && rt == tomb, "tombstone-round-trip")
	r32, err := ReadUint32(cur)
	verif.Assert(err == nil && r32 == u32, "uint32-round-trip")
	rb, err := ReadVarBytes(cur)
	verif.Assert(err == nil && bytes.Equal(rb, b), "second-varbytes-round-trip")
	verif.Assert(cur.Offset() == int64(n), "cursor-at-end")
	_, err = ReadVarBytes(cur)
	verif.Assert(errors.Is(err, io.EOF), "eof-after-last-field")

	// Skip* advance exactly like Read*
	cur2 := &storage.Cursor{File: f}
	verif.Assert(SkipVarBytes(cur2) == nil, "skip-varbytes")
	verif.Assert(cur2.Offset() == int64(afterA), "skip-varbytes-advances-by-encoded-size")
	verif.Assert(SkipUint64(cur2) == nil, "skip-uint64")
	verif.Assert(SkipTombstone(cur2) == nil, "skip-tombstone")
	s32, err := ReadUint32(cur2)
	verif.Assert(err == nil && s32 == u32, "read-after-skips")

	// bounded cursor stops at its bound
	bc := storage.NewBoundedCursor(f, 0, uint64(afterA))
	if afterA > 0 {
		ba, err := ReadVarBytes(bc)
		verif.Assert(err == nil && bytes.Equal(ba, a), "bounded-read-inside")
		_, err = ReadUint64(bc)
		verif.Assert(err != nil, "bounded-read-past-bound-fails")
	}
	verif.Reached()
}
