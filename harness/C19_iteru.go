package iteru

import (
	"iter"
	"slices"

	verif "reduction.dev/reduction/zz_verif"
)

type verifIt struct{ key int }

// Harness_C19_MergeSorted: k-way merge that keeps duplicates: the output is a sorted
// permutation of all input entries.
func Harness_C19_MergeSorted() {
	n := verif.IntRange("inputs", 0, verif.Param("N", 3))
	var all []*verifIt
	var its []iter.Seq[*verifIt]
	for i := 0; i < n; i++ {
		l := verif.IntRange("len", 0, verif.Param("L", 2))
		run := make([]*verifIt, l)
		for j := range run {
			run[j] = &verifIt{verif.Int("key")}
			if j > 0 {
				verif.Assume(run[j-1].key <= run[j].key)
			}
			all = append(all, run[j])
		}
		its = append(its, slices.Values(run))
	}
	var out []*verifIt
	for e := range MergeSorted(its, func(a, b *verifIt) int {
		if a.key < b.key {
			return -1
		}
		if a.key > b.key {
			return 1
		}
		return 0
	}) {
		out = append(out, e)
	}
	verif.Assert(len(out) == len(all), "output-has-every-entry")
	for i, o := range out {
		if i > 0 {
			verif.Assert(out[i-1].key <= o.key, "output-sorted")
		}
		cnt := 0
		for _, p := range out {
			if p == o {
				cnt++
			}
		}
		verif.Assert(cnt == 1, "no-entry-twice")
	}
	for _, x := range all {
		verif.Assert(slices.Contains(out, x), "no-entry-lost")
	}
	verif.Reached()
}
