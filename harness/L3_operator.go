package operator

import (
	"bytes"
	"context"

	"google.golang.org/protobuf/types/known/timestamppb"
	"reduction.dev/reduction-protocol/handlerpb"
	"reduction.dev/reduction/batching"
	"reduction.dev/reduction/clocks"
	"reduction.dev/reduction/dkv"
	"reduction.dev/reduction/dkv/recovery"
	"reduction.dev/reduction/dkv/storage"
	"reduction.dev/reduction/partitioning"
	"reduction.dev/reduction/proto"
	"reduction.dev/reduction/proto/snapshotpb"
	"reduction.dev/reduction/proto/workerpb"
	verif "reduction.dev/reduction/zz_verif"
)

// ---------------------------------------------------------------- fakes around a real Operator

type verifAck struct {
	id  uint64
	uri string
}

type verifJob struct {
	proto.NoopJob
	acks   []verifAck
	onAck  func(id uint64)
	refuse bool // the acknowledgement is lost (job crashed / unreachable): reported as an error
}

func (j *verifJob) OperatorCheckpointComplete(ctx context.Context, req *snapshotpb.OperatorCheckpoint) error {
	if j.refuse {
		return context.DeadlineExceeded
	}
	j.acks = append(j.acks, verifAck{req.CheckpointId, req.DkvFileUri})
	if j.onAck != nil {
		j.onAck(req.CheckpointId)
	}
	return nil
}

// verifSumHandler keeps, per key, the running sum (one byte, wrapping) of the event values in
// state entry ("s","sum"). It records what it was given.
type verifSumHandler struct {
	seen      []verifSeen
	call      []int // handler invocation number of each seen event
	watermark []*timestamppb.Timestamp
	// timerAt > 0: every keyed event sets a timer for its key at that time (seconds); an expiry
	// is recorded in expired and leaves the state entry ("s","fired") for the key
	timerAt int64
	expired [][]byte
	// per expiry: the timer's time and the watermark the handler was told in that call (seconds)
	expiredAt   []int64
	expiredTold []int64
}

type verifSeen struct {
	key   []byte
	state []byte // value of the sum entry given for the key (nil = none)
	value []byte // event value
	tag   int    // harness tag carried in the first byte of the event timestamp seconds
}

func verifStateOf(req *handlerpb.ProcessEventBatchRequest, key []byte) ([]byte, int) {
	n := 0
	var st []byte
	for _, ks := range req.KeyStates {
		if bytes.Equal(ks.Key, key) {
			n++
			for _, ns := range ks.StateEntryNamespaces {
				for _, e := range ns.Entries {
					if ns.Namespace == "s" && bytes.Equal(e.Key, []byte("sum")) {
						st = e.Value
					}
				}
			}
		}
	}
	return st, n
}

func (h *verifSumHandler) ProcessEventBatch(ctx context.Context, req *handlerpb.ProcessEventBatchRequest) (*handlerpb.ProcessEventBatchResponse, error) {
	h.watermark = append(h.watermark, req.Watermark)
	resp := &handlerpb.ProcessEventBatchResponse{}
	cur := map[string][]byte{}
	var order [][]byte
	fired := map[string]bool{}
	var firedOrder [][]byte
	for _, ev := range req.Events {
		if te := ev.GetTimerExpired(); te != nil {
			h.expired = append(h.expired, te.Key)
			h.expiredAt = append(h.expiredAt, te.Timestamp.GetSeconds())
			h.expiredTold = append(h.expiredTold, req.Watermark.GetSeconds())
			if !fired[string(te.Key)] {
				fired[string(te.Key)] = true
				firedOrder = append(firedOrder, te.Key)
			}
			continue
		}
		ke := ev.GetKeyedEvent()
		if ke == nil {
			continue
		}
		k := string(ke.Key)
		st, n := verifStateOf(req, ke.Key)
		verif.Assert(n == 1, "state-fetched-once-per-key-per-batch")
		if _, ok := cur[k]; !ok {
			cur[k] = st
			order = append(order, ke.Key)
		}
		h.seen = append(h.seen, verifSeen{key: ke.Key, state: cur[k], value: ke.Value, tag: int(ke.Timestamp.GetSeconds())})
		h.call = append(h.call, len(h.watermark))
		var old byte
		if len(cur[k]) == 1 {
			old = cur[k][0]
		}
		cur[k] = []byte{old + ke.Value[0]}
	}
	for _, key := range order {
		kr := &handlerpb.KeyResult{Key: key, StateMutationNamespaces: []*handlerpb.StateMutationNamespace{{
			Namespace: "s",
			Mutations: []*handlerpb.StateMutation{{Mutation: &handlerpb.StateMutation_Put{Put: &handlerpb.PutMutation{Key: []byte("sum"), Value: cur[string(key)]}}}},
		}}}
		if h.timerAt > 0 {
			kr.NewTimers = []*timestamppb.Timestamp{{Seconds: h.timerAt}}
		}
		resp.KeyResults = append(resp.KeyResults, kr)
	}
	for _, key := range firedOrder {
		resp.KeyResults = append(resp.KeyResults, &handlerpb.KeyResult{Key: key, StateMutationNamespaces: []*handlerpb.StateMutationNamespace{{
			Namespace: "s",
			Mutations: []*handlerpb.StateMutation{{Mutation: &handlerpb.StateMutation_Put{Put: &handlerpb.PutMutation{Key: []byte("fired"), Value: []byte{1}}}}},
		}}})
	}
	return resp, nil
}

func (h *verifSumHandler) KeyEventBatch(ctx context.Context, events [][]byte) ([][]*handlerpb.KeyedEvent, error) {
	return nil, nil
}

type verifSink struct{}

func (verifSink) Write([]byte) error { return nil }

type verifOpEnv struct {
	op      *Operator
	job     *verifJob
	handler *verifSumHandler
	cancel  context.CancelFunc
	ctx     context.Context
}

// verifStartOperator builds a real Operator, starts its event loop, and wires it to the DKV
// file system exactly as HandleDeploy does (HandleDeploy itself creates a fresh in-memory file
// system per call, so a restore through it could never see the checkpoint files).
func verifStartOperator(fs storage.FileSystem, handles []recovery.CheckpointHandle, senders []string, batch int, job *verifJob, handler *verifSumHandler) *verifOpEnv {
	e := &verifOpEnv{job: job, handler: handler}
	e.ctx, e.cancel = context.WithCancel(context.Background())
	e.op = NewOperator(NewOperatorParams{ID: "op1", Host: "h", Job: job, UserHandler: handler,
		EventBatching: batching.EventBatcherParams{MaxSize: batch}, Clock: clocks.NewFrozenClock()})
	go e.op.Start(e.ctx)
	verif.Quiesce() // the operator registers and starts its event loop
	o := e.op
	o.keySpace = partitioning.NewKeySpace(4, 1)
	o.keyGroupRange = o.keySpace.KeyGroupRanges()[0]
	o.status.LoadingStarted()
	o.db = dkv.Open(dkv.DBOptions{FileSystem: fs, MemTableSize: 64, TargetFileSize: 128, L0TableNumCompactionTrigger: 2,
		DataOwnership: newOperatorPartition(o.keyGroupRange, nil)}, handles)
	o.stateStore = NewKeyedStateStore(o.db, o.keySpace)
	o.timerRegistry = NewTimerRegistry(NewTimerStore(o.db, o.keySpace, o.keyGroupRange, 1<<20), senders)
	o.sourceRunners = newUpstreams(senders)
	o.sink = verifSink{}
	if err := o.status.DidLoad(); err != nil {
		panic(err)
	}
	return e
}

func verifKeyed(key []byte, val []byte, tag int) *workerpb.Event {
	return &workerpb.Event{Event: &workerpb.Event_KeyedEvent{KeyedEvent: &handlerpb.KeyedEvent{Key: key, Value: val, Timestamp: &timestamppb.Timestamp{Seconds: int64(tag)}}}}
}

func verifBarrier(id uint64) *workerpb.Event {
	return &workerpb.Event{Event: &workerpb.Event_CheckpointBarrier{CheckpointBarrier: &workerpb.CheckpointBarrier{CheckpointId: id}}}
}

func verifSumOf(st *KeyedStateStore, key []byte) []byte {
	nss, err := st.GetState(key)
	if err != nil {
		panic(err)
	}
	for _, ns := range nss {
		for _, e := range ns.Entries {
			if ns.Namespace == "s" && bytes.Equal(e.Key, []byte("sum")) {
				return e.Value
			}
		}
	}
	return nil
}

// ---------------------------------------------------------------- C01

type verifItem struct {
	barrier uint64 // 0 = event
	key     int
	val     []byte
}

// Harness_C01_CutRestore: one real operator (event loop, batcher, keyed state store, DKV) with
// a summing handler and one upstream. The input is any sequence of K items, each an event for
// one of two keys with an arbitrary value, or a checkpoint barrier. The worker is killed after
// any item (optionally with the acknowledgement of the last checkpoint lost), a new operator is
// opened from the last checkpoint the job knows, and the input is re-delivered from the position
// of that barrier (from the start if there is none). The state the handler is given at every
// invocation and the final state must equal those of a failure-free run.
func Harness_C01_CutRestore() {
	verif.FixedRand(3, 1, 4, 1, 5, 9, 2, 6)
	verif.Abstract("bloom.Filter")
	keys := [][]byte{[]byte("k1"), []byte("k2")}
	k := verif.Param("K", 4)
	batch := verif.IntRange("batch", 1, verif.Param("BATCH", 2))
	var input []verifItem
	nextID := uint64(1)
	for i := 0; i < k; i++ {
		if verif.Choose("item", 3) == 2 {
			if nextID > uint64(verif.Param("BARRIERS", 2)) {
				verif.Assume(false)
			}
			input = append(input, verifItem{barrier: nextID})
			nextID++
		} else {
			input = append(input, verifItem{key: verif.Choose("key", 2), val: verif.Bytes("v", 1)})
		}
	}
	// reference: running sums before each item
	sums := make([][2][]byte, len(input)+1)
	for i, it := range input {
		sums[i+1] = sums[i]
		if it.barrier == 0 {
			var old byte
			if sums[i][it.key] != nil {
				old = sums[i][it.key][0]
			}
			sums[i+1][it.key] = []byte{old + it.val[0]}
		}
	}

	root := storage.NewMemoryFilesystem()
	senders := []string{"s1"}
	job := &verifJob{}
	handler := &verifSumHandler{}
	e := verifStartOperator(root.WithWorkingDir("gen1"), nil, senders, batch, job, handler)
	ackPos := map[uint64]int{}
	deliver := func(e *verifOpEnv, from, to int) {
		for i := from; i < to; i++ {
			it := input[i]
			var ev *workerpb.Event
			if it.barrier != 0 {
				ev = verifBarrier(it.barrier)
			} else {
				ev = verifKeyed(keys[it.key], it.val, i)
			}
			err := e.op.HandleEvent(e.ctx, "s1", ev)
			if it.barrier != 0 && !job.refuse {
				verif.Assert(err == nil, "barrier-handled")
				ackPos[it.barrier] = i
			}
		}
	}
	crash := verif.Choose("crash-after", len(input)+1) // number of items delivered before the kill
	lostAck := false
	if crash > 0 && input[crash-1].barrier != 0 {
		lostAck = verif.Choose("ack-lost", 2) == 1
	}
	if lostAck {
		deliver(e, 0, crash-1)
		job.refuse = true
		deliver(e, crash-1, crash)
		job.refuse = false
	} else {
		deliver(e, 0, crash)
	}
	e.cancel() // the worker dies: nothing of its memory survives
	verif.Quiesce()

	// restart from the last checkpoint the job has
	restartFrom := 0
	var handles []recovery.CheckpointHandle
	if n := len(job.acks); n > 0 {
		a := job.acks[n-1]
		handles = []recovery.CheckpointHandle{{CheckpointID: a.id, URI: a.uri}}
		restartFrom = ackPos[a.id] + 1
	}
	handler2 := &verifSumHandler{}
	e2 := verifStartOperator(root.WithWorkingDir("gen2"), handles, senders, batch, job, handler2)
	deliver(e2, restartFrom, len(input))
	// flush what is still batched
	verif.Assert(e2.op.HandleEvent(e2.ctx, "s1", verifBarrier(nextID)) == nil, "final-barrier-handled")

	for _, s := range handler2.seen {
		verif.Assert(bytes.Equal(s.state, sums[s.tag][indexOfKey(keys, s.key)]), "handler-given-the-failure-free-state")
	}
	for i, key := range keys {
		verif.Assert(bytes.Equal(verifSumOf(e2.op.stateStore, key), sums[len(input)][i]), "final-state-equals-failure-free-run")
	}
	// before the crash, too
	for _, s := range handler.seen {
		verif.Assert(bytes.Equal(s.state, sums[s.tag][indexOfKey(keys, s.key)]), "handler-given-the-failure-free-state")
	}
	e2.cancel()
	verif.Reached()
}

func indexOfKey(keys [][]byte, k []byte) int {
	for i, c := range keys {
		if bytes.Equal(c, k) {
			return i
		}
	}
	return -1
}

func verifFiredOf(st *KeyedStateStore, key []byte) bool {
	nss, err := st.GetState(key)
	if err != nil {
		panic(err)
	}
	for _, ns := range nss {
		for _, e := range ns.Entries {
			if ns.Namespace == "s" && bytes.Equal(e.Key, []byte("fired")) {
				return true
			}
		}
	}
	return false
}
