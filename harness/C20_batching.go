package batching

import (
	"context"
	"time"

	verif "reduction.dev/reduction/zz_verif"
)

// verifTimer is a clocks.Timer whose expiry is driven by the harness.
type verifTimer struct {
	do func()
}

func (t *verifTimer) Set(d time.Duration, do func()) { t.do = do }
func (t *verifTimer) Stop()                          { t.do = nil }

// Harness_C20_Batcher: every sequence of K operations Add / Flush(current) / timer expiry /
// delivery of a time-out token followed (immediately or later) by Flush(token). The
// concatenation of all returned batches plus a final flush equals the sequence of items
// added; a token of an already flushed batch flushes nothing; IsFull iff len >= maxSize.
func Harness_C20_Batcher() {
	ctx, cancel := context.WithCancel(context.Background())
	defer cancel()
	timer := &verifTimer{}
	maxSize := verif.IntRange("maxSize", 1, 3)
	b := NewEventBatcher[int](ctx, EventBatcherParams{MaxDelay: time.Second, MaxSize: maxSize, Timer: timer})
	var added, out []int
	var pendingLen int                // reference: items in the current batch
	var refToken int64                // reference: generation of the current batch
	var held []BatchToken             // tokens received from the time-out channel, not yet used
	var heldGen []int64               // reference generation each held token belongs to
	inflight := 0                     // timer callbacks blocked on the channel
	var inflightGen []int64
	k := verif.Param("K", 5)
	for step := 0; step < k; step++ {
		switch verif.Choose("op", 5) {
		case 0: // Add
			x := verif.Int("x")
			b.Add(x)
			added = append(added, x)
			pendingLen++
			verif.Assert(b.IsFull() == (pendingLen >= maxSize), "is-full-iff-len-at-least-max")
		case 1: // explicit / size-triggered flush
			got := b.Flush(CurrentBatch)
			verif.Assert(len(got) == pendingLen, "flush-returns-whole-current-batch")
			out = append(out, got...)
			if pendingLen > 0 {
				refToken++
			}
			pendingLen = 0
		case 2: // timer expires (if armed): callback runs on its own goroutine
			if timer.do != nil {
				cb := timer.do
				timer.do = nil
				go cb()
				inflight++
				inflightGen = append(inflightGen, refToken)
			}
		case 3: // consumer receives a time-out token
			if inflight > 0 {
				tok := <-b.BatchTimedOut
				inflight--
				// callbacks deliver in the order they were fired only if one is in flight; identify by value
				held = append(held, tok)
				g := inflightGen[0]
				for i, cand := range inflightGen {
					if BatchToken(cand) == tok {
						g = cand
						inflightGen = append(inflightGen[:i:i], inflightGen[i+1:]...)
						break
					}
				}
				heldGen = append(heldGen, g)
			}
		case 4: // consumer flushes with a held token (possibly stale)
			if len(held) > 0 {
				i := verif.Choose("which", len(held))
				tok, g := held[i], heldGen[i]
				held = append(held[:i:i], held[i+1:]...)
				heldGen = append(heldGen[:i:i], heldGen[i+1:]...)
				got := b.Flush(tok)
				if g == refToken {
					verif.Assert(len(got) == pendingLen, "current-token-flushes-current-batch")
					if pendingLen > 0 {
						refToken++
					}
					pendingLen = 0
				} else {
					verif.Assert(len(got) == 0, "stale-token-flushes-nothing")
				}
				out = append(out, got...)
			}
		}
	}
	out = append(out, b.Flush(CurrentBatch)...)
	verif.Assert(len(out) == len(added), "every-item-handed-out-exactly-once")
	if len(out) == len(added) {
		for i := range added {
			verif.Assert(out[i] == added[i], "items-in-order-added")
		}
	}
	verif.Reached()
}

// Harness_C20_ReorderBuffer: results added in any order under reserved sequence numbers are
// drained strictly in reservation order, each once.
func Harness_C20_ReorderBuffer() {
	n := verif.IntRange("n", 1, verif.Param("N", 3))
	rb := NewReorderBuffer[int](n)
	seqs := make([]uint64, n)
	for i := range seqs {
		seqs[i] = rb.Reserve()
	}
	// add in an arbitrary order, draining after each add
	left := make([]int, n)
	for i := range left {
		left[i] = i
	}
	var drained []int
	for len(left) > 0 {
		j := verif.Choose("next", len(left))
		i := left[j]
		left = append(left[:j:j], left[j+1:]...)
		rb.Add(seqs[i], 100+i)
		for v := range rb.Drain() {
			drained = append(drained, v)
		}
	}
	verif.Assert(len(drained) == n, "all-drained")
	for i, v := range drained {
		verif.Assert(v == 100+i, "drained-in-reservation-order")
	}
	verif.Reached()
}

// Harness_C20_ReorderFetcher: N items are added by a producer while the time-out flusher is
// live, the timer may expire after any Add and Flush may be called after any Add (also when
// nothing is batched); fetches complete in any order; every
// interleaving at synchronisation points is explored. The output channel must carry one
// result per input, in input order.
func Harness_C20_ReorderFetcher() {
	verif.ScheduleMode(verif.Param("MODE", 1), verif.Param("PREEMPT", -1))
	ctx, cancel := context.WithCancel(context.Background())
	defer cancel()
	timer := &verifTimer{}
	maxSize := 2
	if verif.Param("VARY", 0) == 1 {
		maxSize = verif.IntRange("maxSize", 1, 2)
	}
	batcher := NewEventBatcher[int](ctx, EventBatcherParams{MaxDelay: time.Second, MaxSize: maxSize, Timer: timer})
	errs := make(chan error, 4)
	rf := NewReorderFetcher(ctx, NewReorderFetcherParams[int, int]{
		Batcher: batcher,
		FetchBatch: func(ctx context.Context, events []int) ([]int, error) {
			if verif.Param("VARY", 0) == 1 {
				verif.Yield() // fetch latency: other fetches may overtake here
			}
			return events, nil
		},
		ErrChan:    errs,
		BufferSize: 1 + verif.Choose("buffer", 1+verif.Param("VARY", 0)),
	})
	n := verif.Param("N", 3)
	done := make(chan []int)
	go func() {
		var got []int
		for len(got) < n {
			got = append(got, <-rf.Output)
		}
		done <- got
	}()
	for i := 0; i < n; i++ {
		rf.Add(ctx, i)
		if verif.Param("FLUSHES", 1) == 1 && verif.Choose("explicit-flush", 2) == 1 {
			rf.Flush(ctx) // may find the batcher empty (a size-triggered flush took the batch)
		}
		if timer.do != nil && verif.Choose("timer-fires", 2) == 1 {
			cb := timer.do
			timer.do = nil
			go cb()
			verif.Yield() // the time-out flusher may run now or later
		}
	}
	rf.Flush(ctx)
	got := <-done
	for i, v := range got {
		verif.Assert(v == i, "output-in-input-order")
	}
	verif.Reached()
}

// Harness_C20_BackPressure: the reorder fetcher with a slow consumer. N items are added by a
// producer (which blocks whenever the reorder buffer has no free slot); the harness decides,
// step by step, which outstanding fetch completes next, when the explicit Flush after the last
// Add is issued and when the consumer takes one result from Output (capacity = batch size, as the source runner configures it). Every
// completion order and every placement of the consumer's reads is explored; the consumer
// must receive one result per item, in input order.
func Harness_C20_BackPressure() {
	ctx, cancel := context.WithCancel(context.Background())
	defer cancel()
	// an even or an odd number of items: the final explicit Flush finds nothing or a partial batch
	n := verif.Param("N", 6) - verif.Choose("odd-number-of-items", 2)
	size := 2
	nb := (n + size - 1) / size
	gates := make([]chan struct{}, nb)
	started := make([]bool, nb)
	completed := make([]bool, nb)
	for i := range gates {
		gates[i] = make(chan struct{})
	}
	batcher := NewEventBatcher[int](ctx, EventBatcherParams{MaxDelay: time.Hour, MaxSize: size, Timer: &verifTimer{}})
	errs := make(chan error, 4)
	rf := NewReorderFetcher(ctx, NewReorderFetcherParams[int, int]{
		Batcher: batcher,
		FetchBatch: func(ctx context.Context, events []int) ([]int, error) {
			j := events[0] / size
			started[j] = true
			<-gates[j] // the fetch is outstanding until the harness completes it
			return events, nil
		},
		ErrChan:    errs,
		BufferSize: size,
	})
	added := 0
	go func() {
		for i := 0; i < n; i++ {
			rf.Add(ctx, i)
			added = i + 1
		}
	}()
	verif.Quiesce()
	flushed := false // the explicit Flush after the last Add happens when the harness says so
	var got []int
	for steps := 0; len(got) < n && steps < 4*n; steps++ {
		var acts []int // batch index to complete, or -1 = the consumer takes one result
		for j := range gates {
			if started[j] && !completed[j] {
				acts = append(acts, j)
			}
		}
		if len(rf.Output) > 0 {
			acts = append(acts, -1)
		}
		if added == n && !flushed {
			acts = append(acts, -2)
		}
		verif.Assert(len(acts) > 0, "no-deadlock-under-back-pressure")
		if len(acts) == 0 {
			break
		}
		a := acts[verif.Choose("next", len(acts))]
		switch {
		case a >= 0:
			completed[a] = true
			gates[a] <- struct{}{}
		case a == -1:
			got = append(got, <-rf.Output)
		default:
			flushed = true
			go rf.Flush(ctx)
		}
		verif.Quiesce()
	}
	verif.Assert(len(got) == n, "one-result-per-input")
	for i, v := range got {
		verif.Assert(v == i, "output-in-input-order")
	}
	verif.Reached()
}
