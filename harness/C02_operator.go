package operator

import (
	"bytes"
	"time"

	"google.golang.org/protobuf/types/known/timestamppb"
	"reduction.dev/reduction/dkv/recovery"
	"reduction.dev/reduction/dkv/storage"
	"reduction.dev/reduction/proto/workerpb"
	verif "reduction.dev/reduction/zz_verif"
)

type verifMsg struct {
	barrier uint64
	wm      int64 // > 0: a watermark with this timestamp (seconds)
	key     int
	val     []byte
	tag     int
}

// Harness_C02_Alignment: a real operator with two upstream source runners. Each delivers the
// script e, B1, e' [, B2, e”] (with WM=1 each item is an event or a watermark, and SEG items
// precede each barrier) through HandleEvent; the harness chooses, message by message,
// whose next call arrives (every interleaving of the calls; a call that is parked for
// alignment stays parked while the other runner continues). Events a runner delivers after its
// own barrier N must reach the handler only after checkpoint N was acknowledged, and the DKV
// checkpoint N, restored, must hold exactly the effects of the events each runner delivered
// before its barrier N.
func Harness_C02_Alignment() {
	verif.FixedRand(3, 1, 4, 1, 5, 9, 2, 6)
	verif.Abstract("bloom.Filter")
	keys := [][]byte{[]byte("k1"), []byte("k2")}
	senders := []string{"s1", "s2"}
	rounds := verif.Param("CKPTS", 1)
	batch := verif.IntRange("batch", 1, verif.Param("BATCH", 2))
	// scripts: event, barrier 1, event [, barrier 2, event]
	scripts := make([][]verifMsg, 2)
	tag := 0
	for s := range scripts {
		wm := int64(0)
		for r := 0; r <= rounds; r++ {
			items := 1
			if r < rounds {
				items = verif.Param("SEG", 1) // items before each barrier
			}
			for i := 0; i < items; i++ {
				if verif.Param("WM", 0) == 1 && verif.Choose("watermark", 2) == 1 {
					// a watermark instead of an event; per runner the timestamps grow
					wm += 10
					scripts[s] = append(scripts[s], verifMsg{wm: wm})
				} else {
					scripts[s] = append(scripts[s], verifMsg{key: verif.Choose("key", verif.Param("KEYS", 2)), val: verif.Bytes("v", 1), tag: tag})
				}
				tag++
			}
			if r < rounds {
				scripts[s] = append(scripts[s], verifMsg{barrier: uint64(r + 1)})
			}
		}
	}
	root := storage.NewMemoryFilesystem()
	job := &verifJob{}
	handler := &verifSumHandler{}
	if verif.Param("TIMERS", 0) == 1 {
		handler.timerAt = 5 // before every watermark a script can carry (10, 20, ...)
	}
	e := verifStartOperator(root.WithWorkingDir("gen1"), nil, senders, batch, job, handler)
	seenAtAck := map[uint64]int{}
	callsAtAck := map[uint64]int{}
	// timers: was the timer of a key ever registered (it is registered only if it is later than the
	// operator's watermark when the handler's response is applied) - sampled from the database after
	// every call and at every acknowledgement
	wasSet := make([]bool, len(keys))
	setAtAck := map[uint64][]bool{}
	sampleTimers := func() {
		if handler.timerAt == 0 {
			return
		}
		for i, key := range keys {
			_, tk := e.op.timerRegistry.store.encodeTimerKey(key, time.Unix(handler.timerAt, 0))
			if ent, err := e.op.db.Get(tk); err == nil && !ent.IsDelete() {
				wasSet[i] = true
			}
		}
	}
	job.onAck = func(id uint64) {
		seenAtAck[id] = len(handler.seen)
		callsAtAck[id] = len(handler.watermark)
		sampleTimers()
		setAtAck[id] = append([]bool(nil), wasSet...)
	}

	// one goroutine per upstream; the harness releases one call at a time
	goCh := []chan struct{}{make(chan struct{}), make(chan struct{})}
	pauses := 0
	next := []int{0, 0} // next message index to be *started*
	done := []int{0, 0} // messages whose call returned
	for s := range senders {
		s := s
		go func() {
			for i, m := range scripts[s] {
				<-goCh[s]
				var ev *workerpb.Event
				if m.barrier != 0 {
					ev = verifBarrier(m.barrier)
				} else if m.wm != 0 {
					ev = &workerpb.Event{Event: &workerpb.Event_Watermark{Watermark: &workerpb.Watermark{Timestamp: &timestamppb.Timestamp{Seconds: m.wm}}}}
				} else {
					ev = verifKeyed(keys[m.key], m.val, m.tag)
				}
				if err := e.op.HandleEvent(e.ctx, senders[s], ev); err != nil {
					panic(err)
				}
				done[s] = i + 1
			}
		}()
	}
	for next[0] < len(scripts[0]) || next[1] < len(scripts[1]) {
		// a runner can start its next call when its previous call returned
		var can []int
		for s := range senders {
			if next[s] < len(scripts[s]) && done[s] == next[s] {
				can = append(can, s)
			}
		}
		verif.Assert(len(can) > 0, "no-deadlock-between-aligned-senders")
		if len(can) == 0 {
			break
		}
		s := can[verif.Choose("who", len(can))]
		next[s]++
		goCh[s] <- struct{}{}
		verif.Quiesce()
		sampleTimers()
		if pauses < verif.Param("PAUSES", 0) && verif.Choose("a-long-time-passes", 2) == 1 {
			// a straggler: the next message is a long time coming (alignment must hold however long)
			pauses++
			verif.LongPause()
			verif.Quiesce()
		}
	}
	verif.Assert(done[0] == len(scripts[0]) && done[1] == len(scripts[1]), "every-call-returns")
	// flush what is still batched
	flushID := uint64(rounds + 1)
	for s := range senders {
		s := s
		go func() { e.op.HandleEvent(e.ctx, senders[s], verifBarrier(flushID)) }()
	}
	verif.Quiesce()

	// (1) post-barrier events are handled only after the checkpoint was acknowledged
	for pos, sn := range handler.seen {
		for s := range senders {
			var after uint64 // newest barrier this sender delivered before the event
			for _, m := range scripts[s] {
				if m.barrier != 0 {
					after = m.barrier
				} else if m.wm == 0 && m.tag == sn.tag && after != 0 {
					at, acked := seenAtAck[after]
					verif.Assert(acked && pos >= at, "event-after-barrier-not-handled-before-the-checkpoint")
				}
			}
		}
	}
	// (1b) a watermark a runner delivers after its barrier N takes effect only after checkpoint N:
	// until the acknowledgement the handler is never told more than the minimum over the runners
	// of the newest watermark each delivered before its barrier N
	for n := uint64(1); n <= uint64(rounds); n++ {
		bound := int64(-1)
		for s := range senders {
			var newest int64
			for _, m := range scripts[s] {
				if m.barrier == n {
					break
				}
				if m.wm > newest {
					newest = m.wm
				}
			}
			if bound < 0 || newest < bound {
				bound = newest
			}
		}
		upto, acked := callsAtAck[n]
		if !acked {
			continue
		}
		for j := 0; j < upto && j < len(handler.watermark); j++ {
			verif.Assert(handler.watermark[j].GetSeconds() <= bound, "watermark-after-barrier-takes-no-effect-before-the-checkpoint")
		}
	}
	// (2) checkpoint N restored = effects of exactly the pre-barrier events of each runner
	for _, a := range job.acks {
		if a.id > uint64(rounds) {
			continue
		}
		var want [2][]byte
		for s := range senders {
			for _, m := range scripts[s] {
				if m.barrier == a.id {
					break
				}
				if m.barrier == 0 && m.wm == 0 {
					var old byte
					if want[m.key] != nil {
						old = want[m.key][0]
					}
					want[m.key] = []byte{old + m.val[0]}
				}
			}
		}
		rh := &verifSumHandler{}
		r := verifStartOperator(root.WithWorkingDir("restore"), []recovery.CheckpointHandle{{CheckpointID: a.id, URI: a.uri}}, senders, 1, &verifJob{}, rh)
		for i, key := range keys {
			verif.Assert(bytes.Equal(verifSumOf(r.op.stateStore, key), want[i]), "checkpoint-holds-exactly-the-pre-barrier-effects")
		}
		if handler.timerAt > 0 {
			// (3) a timer set by a pre-barrier event is, in the checkpoint, either still pending or has
			// fired with its effect applied - never neither (lost) and never both (fires again)
			firedInCkpt := make([]bool, len(keys))
			for i, key := range keys {
				firedInCkpt[i] = verifFiredOf(r.op.stateStore, key)
			}
			for _, sdr := range senders {
				verif.Assert(r.op.HandleEvent(r.ctx, sdr, &workerpb.Event{Event: &workerpb.Event_Watermark{Watermark: &workerpb.Watermark{Timestamp: &timestamppb.Timestamp{Seconds: 1000}}}}) == nil, "watermark-handled-after-restore")
			}
			for i, key := range keys {
				firesAfter := 0
				for _, k := range rh.expired {
					if bytes.Equal(k, key) {
						firesAfter++
					}
				}
				if set := setAtAck[a.id]; set != nil && set[i] {
					verif.Assert((firedInCkpt[i] && firesAfter == 0) || (!firedInCkpt[i] && firesAfter == 1), "timer-registered-before-the-checkpoint-fires-exactly-once-across-it")
				} else {
					verif.Assert(!firedInCkpt[i] && firesAfter == 0, "no-timer-fires-that-was-not-registered-before-the-checkpoint")
				}
			}
		}
		r.cancel()
	}
	verif.Assert(len(job.acks) >= rounds, "every-checkpoint-acknowledged")
	e.cancel()
	verif.Reached()
}

// Harness_C11_OperatorMinimum: the watermark the handler is told and the timers that fire follow
// the minimum over the upstreams' latest watermarks (an upstream that has not reported counts
// as the epoch), for arbitrary watermark values.
func Harness_C11_OperatorMinimum() {
	verif.FixedRand(3, 1, 4, 1, 5, 9, 2, 6)
	verif.Abstract("bloom.Filter")
	root := storage.NewMemoryFilesystem()
	n := verif.IntRange("upstreams", 1, 3)
	senders := []string{"s1", "s2", "s3"}[:n]
	job := &verifJob{}
	handler := &verifSumHandler{}
	e := verifStartOperator(root.WithWorkingDir("gen1"), nil, senders, 1, job, handler)
	wm := make([]int64, n)
	k := verif.Param("K", 3)
	timers := verif.Param("TIMERS", 0) == 1
	for step := 0; step < k; step++ {
		s := verif.Choose("sender", n)
		w := verif.I64("w")
		verif.Assume(verif.And(w >= 0, w <= 1000))
		wm[s] = w
		wmCalls, wmExpired := len(handler.watermark), len(handler.expired)
		err := e.op.HandleEvent(e.ctx, senders[s], &workerpb.Event{Event: &workerpb.Event_Watermark{Watermark: &workerpb.Watermark{Timestamp: &timestamppb.Timestamp{Seconds: w}}}})
		verif.Assert(err == nil, "watermark-handled")
		min := wm[0]
		for _, x := range wm[1:] {
			min = verif.IteI64(x < min, x, min)
		}
		// TIMERS: every keyed event registers a timer for its key (steps use different keys and
		// times); the calls made while the due timers are drained are told the new minimum, and
		// no timer later than it fires
		for j := wmCalls; j < len(handler.watermark); j++ {
			verif.Assert(handler.watermark[j].GetSeconds() == min, "handler-told-the-minimum-while-timers-expire")
		}
		for j := wmExpired; j < len(handler.expired); j++ {
			verif.Assert(handler.expiredAt[j] <= min, "no-timer-later-than-the-minimum-fires")
			verif.Assert(handler.expiredAt[j] <= handler.expiredTold[j], "no-timer-later-than-the-watermark-the-handler-is-told")
		}
		if timers {
			handler.timerAt = int64(300 + 200*step)
		}
		// an event makes the handler run: it must be told the minimum
		before := len(handler.watermark)
		verif.Assert(e.op.HandleEvent(e.ctx, senders[s], verifKeyed([]byte{'k', byte('1' + step)}, []byte{1}, step)) == nil, "event-handled")
		verif.Assert(len(handler.watermark) == before+1, "handler-invoked")
		if len(handler.watermark) == before+1 {
			got := handler.watermark[before]
			verif.Assert(got.GetSeconds() == min && got.GetNanos() == 0, "handler-told-the-minimum-upstream-watermark")
		}
	}
	e.cancel()
	verif.Reached()
}
