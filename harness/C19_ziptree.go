package ziptree

import (
	"bytes"

	verif "reduction.dev/reduction/zz_verif"
)

func verifInorder(n *Node, out *[]*Node) {
	if n == nil {
		return
	}
	verifInorder(n.left, out)
	*out = append(*out, n)
	verifInorder(n.right, out)
}

// Harness_C19_ZipTree: zip tree against an association-list reference for every sequence of
// K Put operations (insert and in-place replacement; keys of length 0..2 with arbitrary
// bytes, so keys may be prefixes of one another; ranks arbitrary) followed by Get of an
// arbitrary key and AscendPrefix of an arbitrary prefix.
func Harness_C19_ZipTree() {
	t := New()
	var model []*Node // latest node per distinct key
	k := verif.Param("K", 3)
	for step := 0; step < k; step++ {
		key := verif.Bytes("k", verif.IntRange("klen", 0, verif.Param("KL", 2)))
		n := NewKVEntry(key, []byte{byte(step)})
		replaced := t.Put(n)
		pos := -1
		for i, m := range model {
			if bytes.Equal(m.Key, key) {
				pos = i
			}
		}
		if pos >= 0 {
			verif.Assert(replaced == model[pos], "put-returns-replaced-node")
			model[pos] = n
		} else {
			verif.Assert(replaced == nil, "put-of-new-key-returns-nil")
			model = append(model, n)
		}
		// structure: in-order traversal is strictly ascending and holds exactly the model
		var nodes []*Node
		verifInorder(t.root, &nodes)
		verif.Assert(len(nodes) == len(model), "tree-holds-one-node-per-key")
		for i := 1; i < len(nodes); i++ {
			verif.Assert(bytes.Compare(nodes[i-1].Key, nodes[i].Key) < 0, "in-order-strictly-ascending")
		}
		for _, m := range model {
			found := false
			for _, x := range nodes {
				if x == m {
					found = true
				}
			}
			verif.Assert(found, "latest-node-of-every-key-is-in-tree")
		}
	}
	// point lookup of an arbitrary key
	q := verif.Bytes("q", verif.IntRange("qlen", 0, verif.Param("KL", 2)))
	got, ok := t.Get(q)
	var want *Node
	for _, m := range model {
		if bytes.Equal(m.Key, q) {
			want = m
		}
	}
	verif.Assert(ok == (want != nil), "get-finds-iff-present")
	if ok {
		verif.Assert(got == want, "get-returns-latest-node")
	}
	// prefix iteration
	p := verif.Bytes("p", verif.IntRange("plen", 0, verif.Param("KL", 2)))
	var seen []*Node
	for n := range t.AscendPrefix(p) {
		seen = append(seen, n)
	}
	wantCount := 0
	for _, m := range model {
		wantCount += verif.IteInt(bytes.HasPrefix(m.Key, p), 1, 0)
	}
	verif.Assert(len(seen) == wantCount, "ascend-yields-every-key-with-prefix-once")
	for i, n := range seen {
		verif.Assert(bytes.HasPrefix(n.Key, p), "ascend-yields-only-keys-with-prefix")
		if i > 0 {
			verif.Assert(bytes.Compare(seen[i-1].Key, n.Key) < 0, "ascend-in-key-order")
		}
	}
	verif.Reached()
}
