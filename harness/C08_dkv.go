package dkv

import (
	"reduction.dev/reduction/dkv/recovery"
	"reduction.dev/reduction/dkv/storage"
	verif "reduction.dev/reduction/zz_verif"
)

type verifCkpt struct {
	handle recovery.CheckpointHandle
	snap   *verifModel
}

func verifRestore(fs storage.FileSystem, c verifCkpt) *DB {
	return Open(DBOptions{FileSystem: fs, MemTableSize: 20, TargetFileSize: 64, L0TableNumCompactionTrigger: 2}, []recovery.CheckpointHandle{c.handle})
}

// Harness_C08_CkptRestore: K operations (put / delete / background work completes /
// Checkpoint) on a real DB whose memtable seals after every second write. Every checkpoint
// handle must restore - at the end of the history, i.e. after whatever the original did
// afterwards - to exactly the contents at its Checkpoint call. The restored database (opened
// in the same directory, as a redeployed operator does, or in a fresh one, as a restarted
// worker does) must accept new writes, flush them, and checkpoint/restore again.
func Harness_C08_CkptRestore() {
	verif.FixedRand(3, 1, 4, 1, 5, 9, 2, 6)
	verif.Abstract("bloom.Filter")
	root := storage.NewMemoryFilesystem()
	fs := root.WithWorkingDir("op1")
	db := Open(DBOptions{FileSystem: fs, MemTableSize: 20, TargetFileSize: 64, L0TableNumCompactionTrigger: 2}, nil)
	m := newVerifModel()
	var ckpts []verifCkpt
	k := verif.Param("K", 4)
	for step := 0; step < k; step++ {
		nops := 2*len(verifKeys) + 1
		op := verif.Choose("op", nops+1)
		if op == nops {
			if len(ckpts) >= verif.Param("CKPTS", 2) {
				continue
			}
			id := uint64(len(ckpts) + 1)
			wait := db.Checkpoint(id)
			h, err := wait()
			verif.Assert(err == nil, "checkpoint-succeeds")
			verif.Assert(h.CheckpointID == id, "handle-names-the-checkpoint")
			ckpts = append(ckpts, verifCkpt{h, m.clone()})
			continue
		}
		// re-use the C07 step (op index identical)
		switch {
		case op < len(verifKeys):
			v := verif.Bytes("v", 1)
			db.Put(verifKeys[op], v)
			m.val[op], m.live[op] = v, true
		case op < 2*len(verifKeys):
			i := op - len(verifKeys)
			db.Delete(verifKeys[i])
			m.val[i], m.live[i] = nil, false
		default:
			verif.Assert(db.WaitOnTasks() == nil, "background-tasks-succeed")
		}
	}
	if len(ckpts) == 0 {
		verif.Reached()
		return
	}
	verif.Assert(db.WaitOnTasks() == nil, "background-tasks-succeed")
	verifCheckReads(db, m, "original")

	// restore one of the checkpoints
	c := ckpts[verif.Choose("restore", len(ckpts))]
	rfs := fs
	if verif.Choose("directory", 2) == 1 {
		rfs = root.WithWorkingDir("op2")
	}
	db2 := verifRestore(rfs, c)
	verifCheckReads(db2, c.snap, "restored")

	// the restored database accepts writes, flushes them and checkpoints again
	m2 := c.snap.clone()
	if verif.Param("SCRIPT", 0) == 1 {
		// fixed continuation: two writes that seal the memtable (one new key, one overwrite)
		for _, i := range []int{1, 0} {
			v := verif.Bytes("v", 1)
			db2.Put(verifKeys[i], v)
			m2.val[i], m2.live[i] = v, true
			verifCheckReads(db2, m2, "restored-then-written")
		}
	} else {
		for step := 0; step < verif.Param("K2", 2); step++ {
			verifStep(db2, m2)
			verifCheckReads(db2, m2, "restored-then-written")
		}
	}
	verif.Assert(db2.WaitOnTasks() == nil, "background-tasks-succeed")
	verifCheckReads(db2, m2, "restored-written-settled")
	wait := db2.Checkpoint(10)
	h2, err := wait()
	verif.Assert(err == nil, "second-generation-checkpoint-succeeds")
	db3 := verifRestore(rfs, verifCkpt{h2, m2})
	verifCheckReads(db3, m2, "second-generation-restore")

	// the first-generation checkpoint still restores to the same contents
	db4 := verifRestore(root.WithWorkingDir("op3"), c)
	verifCheckReads(db4, c.snap, "retained-checkpoint-unchanged")
	verif.Reached()
}
