package kinesis

import (
	"bytes"
	"math/big"

	"google.golang.org/protobuf/proto"
	"reduction.dev/reduction/connectors/kinesis/kinesispb"
	"reduction.dev/reduction/proto/workerpb"

	verif "reduction.dev/reduction/zz_verif"
)

var verifShardIDs = []string{"s0", "s1", "s2", "s3"}

// Harness_C16_SplitTracker: a universe of up to 4 shards with a shape-chosen parent relation
// (a shard's parents are earlier shards: splits and merges), and every sequence of K operations
// discover / assign / finish / checkpoint-and-restore. AvailableSplits returns exactly the
// known, unassigned shards none of whose parents is still known (= unfinished).
func Harness_C16_SplitTracker() {
	n := verif.IntRange("shards", 1, verif.Param("N", 3))
	shards := make([]SourceSplitterShard, n)
	for i := range shards {
		shards[i] = SourceSplitterShard{ShardID: verifShardIDs[i], HashKeyRange: HashKeyRange{Start: big.NewInt(int64(i)), End: big.NewInt(int64(i + 1))}}
		// parents: none, one earlier shard (split child), or two earlier shards (merge child)
		if i >= 1 {
			switch verif.Choose("parents", 3) {
			case 1:
				shards[i].ParentIDs = []string{verifShardIDs[verif.Choose("p", i)]}
			case 2:
				if i >= 2 {
					shards[i].ParentIDs = []string{verifShardIDs[0], verifShardIDs[1]}
				}
			}
		}
	}
	st := NewSplitTracker()
	known := make([]bool, n)
	assigned := make([]bool, n)
	k := verif.Param("K", 4)
	for step := 0; step < k; step++ {
		i := verif.Choose("shard", n)
		switch verif.Choose("op", 4) {
		case 0:
			st.AddSplits([]SourceSplitterShard{shards[i]})
			known[i] = true
		case 1:
			if known[i] {
				st.TrackAssigned([]SourceSplitterShard{shards[i]})
				assigned[i] = true
			}
		case 2:
			st.RemoveSplits([]string{verifShardIDs[i]})
			known[i], assigned[i] = false, false
		case 3:
			// splitter checkpoint + restore: assigned shards are reloaded unassigned
			saved := st.AssignedSplits()
			last := st.LastAssignedSplitID
			st = NewSplitTracker()
			st.LoadSplits(saved, last)
			for j := range known {
				known[j] = known[j] && assigned[j]
				assigned[j] = false
			}
		}
		avail := st.AvailableSplits()
		for j := 0; j < n; j++ {
			want := known[j] && !assigned[j]
			for _, p := range shards[j].ParentIDs {
				for q := 0; q < n; q++ {
					if verifShardIDs[q] == p && known[q] {
						want = false // a parent is still being read (or waiting to be)
					}
				}
			}
			got := 0
			for _, a := range avail {
				if a.ShardID == verifShardIDs[j] {
					got++
				}
			}
			if want {
				verif.Assert(got == 1, "available-shard-offered-once")
			} else {
				verif.Assert(got == 0, "assigned-unknown-or-child-of-unfinished-parent-not-offered")
			}
		}
	}
	verif.Reached()
}

// Harness_C16_ShardRoundTrip: the splitter state written at a checkpoint (assigned shards with
// their hash ranges and parents) can be loaded again: no panic, identical ids, parents, ranges.
func Harness_C16_ShardRoundTrip() {
	s := SourceSplitterShard{
		ShardID:      "shard-1",
		HashKeyRange: HashKeyRange{Start: new(big.Int).SetBytes(verif.Bytes("start", verif.IntRange("slen", 0, 2))), End: new(big.Int).SetBytes(verif.Bytes("end", verif.IntRange("elen", 1, 2)))},
		ParentIDs:    []string{"shard-0"}[:verif.Choose("parents", 2)],
	}
	pb := s.toProto()
	back := newSourceSplitterShardFromProto(pb)
	verif.Assert(back.ShardID == s.ShardID, "id-preserved")
	verif.Assert(len(back.ParentIDs) == len(s.ParentIDs), "parents-preserved")
	verif.Assert(bytes.Equal(back.HashKeyRange.Start.Bytes(), s.HashKeyRange.Start.Bytes()), "range-start-preserved")
	verif.Assert(bytes.Equal(back.HashKeyRange.End.Bytes(), s.HashKeyRange.End.Bytes()), "range-end-preserved")
	verif.Reached()
}

// Harness_C16_ReaderPositions: a kinesis source reader that was assigned 1..3 shards with
// arbitrary checkpointed positions (as after a recovery) and has polled a shape-chosen number
// of them (a polled shard holds a shard iterator) reports, at a checkpoint, one position per
// assigned shard - the checkpointed one for a shard it has not read from yet.
func Harness_C16_ReaderPositions() {
	n := verif.IntRange("shards", 1, 3)
	r := &SourceReader{streamARN: "arn"}
	var splits []*workerpb.SourceSplit
	cursors := make([][]byte, n)
	for i := 0; i < n; i++ {
		cursors[i] = verif.Bytes("cursor", verif.IntRange("cursor-len", 0, 2))
		splits = append(splits, &workerpb.SourceSplit{SplitId: verifShardIDs[i], Cursor: cursors[i]})
	}
	verif.Assert(r.AssignSplits(splits) == nil, "assign-succeeds")
	polled := verif.Choose("shards-polled-before-the-barrier", n+1)
	for i := 0; i < polled; i++ {
		r.assignedShards[i].shardIterator = "it" // what refreshShardIterator stores after the first poll
	}
	states := r.Checkpoint()
	verif.Assert(len(states) == n, "one-position-per-assigned-shard")
	for i := 0; i < n && i < len(states); i++ {
		var sh kinesispb.Shard
		verif.Assert(proto.Unmarshal(states[i], &sh) == nil, "position-decodes")
		verif.Assert(sh.ShardId == verifShardIDs[i], "position-names-its-shard")
		verif.Assert(bytes.Equal([]byte(sh.Cursor), cursors[i]), "unread-shard-keeps-its-checkpointed-position")
	}
	verif.Reached()
}
