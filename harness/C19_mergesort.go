package mergesort

import (
	"iter"
	"slices"

	verif "reduction.dev/reduction/zz_verif"
)

type verifKV struct {
	key int
	seq int
}

// Harness_C19_Merge: k-way merge that keeps one entry per key (the one `pick` prefers) over
// N sorted inputs of up to L entries each with arbitrary keys and sequence numbers.
func Harness_C19_Merge() {
	n := verif.IntRange("inputs", 0, verif.Param("N", 3))
	var all []verifKV
	var its []iter.Seq[verifKV]
	for i := 0; i < n; i++ {
		l := verif.IntRange("len", 0, verif.Param("L", 2))
		run := make([]verifKV, l)
		for j := range run {
			run[j] = verifKV{verif.Int("key"), verif.Int("seq")}
			if j > 0 {
				verif.Assume(run[j-1].key < run[j].key)
			}
			// sequence numbers are unique in the database
			for _, o := range all {
				verif.Assume(o.seq != run[j].seq)
			}
			all = append(all, run[j])
		}
		its = append(its, slices.Values(run))
	}
	cmp := func(a, b verifKV) int {
		if a.key < b.key {
			return -1
		}
		if a.key > b.key {
			return 1
		}
		return 0
	}
	pick := func(a, b verifKV) verifKV {
		if a.seq > b.seq {
			return a
		}
		return b
	}
	var out []verifKV
	for e := range Merge(its, cmp, pick) {
		out = append(out, e)
	}
	for i, o := range out {
		if i > 0 {
			verif.Assert(out[i-1].key < o.key, "output-strictly-ascending-one-per-key")
		}
		member := false
		for _, x := range all {
			member = verif.Or(member, verif.And(x.key == o.key, x.seq == o.seq))
		}
		verif.Assert(member, "output-entries-come-from-inputs")
	}
	for _, x := range all {
		covered := false
		for _, o := range out {
			covered = verif.Or(covered, verif.And(o.key == x.key, o.seq >= x.seq))
		}
		verif.Assert(covered, "every-key-present-with-its-newest-version")
	}
	verif.Reached()
}
