package wal

import (
	"bytes"

	"reduction.dev/reduction/dkv/storage"
	verif "reduction.dev/reduction/zz_verif"
)

type verifOp struct {
	key, val []byte
	del      bool
	seq      uint64
}

// Harness_C08_WALBookkeeping: the WAL writer under every sequence of K operations that the
// database can issue, respecting its caller contract:
//
//	put/delete      - next sequence number
//	cut             - a memtable was sealed
//	flush           - the background flush finished: every sealed memtable is now in SSTs, so
//	                  Truncate(seq at the latest cut)
//	checkpoint      - Rotate; the old writer is saved with start marker After = newest
//	                  sequence number covered by SSTs
//
// Every saved WAL must replay exactly the operations with sequence number > After, in order.
func Harness_C08_WALBookkeeping() {
	fs := storage.NewMemoryFilesystem()
	w := NewWriter(fs, 0, 1<<30)
	var log []verifOp
	var seq, lastCut, flushed uint64
	k := verif.Param("K", 5)
	ckpts, cuts := 0, 0
	for step := 0; step < k; step++ {
		switch verif.Choose("op", 5) {
		case 0:
			seq++
			op := verifOp{key: verif.Bytes("k", 1), val: verif.Bytes("v", verif.IntRange("vlen", 0, 1)), seq: seq}
			w.Put(op.key, op.val, seq)
			log = append(log, op)
		case 1:
			seq++
			op := verifOp{key: verif.Bytes("k", 1), del: true, seq: seq}
			w.Delete(op.key, seq)
			log = append(log, op)
		case 2:
			w.Cut()
			lastCut = seq
			cuts++
		case 3:
			// flush of all sealed memtables completes (a flush task is only ever enqueued by a cut)
			if cuts == 0 {
				break
			}
			if lastCut > flushed {
				flushed = lastCut
			}
			w.Truncate(flushed)
		case 4:
			if ckpts >= verif.Param("CKPTS", 2) {
				break
			}
			ckpts++
			prev := w
			w = w.Rotate(fs)
			// the start marker is what the tables cover; the reader also has to cope with a marker
			// ahead of the truncation point (records at or before it are still in the file and are
			// skipped), which the interface allows although the database truncates in the same step
			after := flushed
			if lastCut > flushed && verif.Choose("marker-ahead-of-truncation", 2) == 1 {
				after = lastCut
			}
			h := prev.Handle(after)
			verif.Assert(prev.Save() == nil, "save-succeeds")
			var got []Entry
			for e, err := range NewReader(fs, h).All() {
				verif.Assert(err == nil, "replay-no-error")
				if err != nil {
					break
				}
				got = append(got, e)
			}
			var want []verifOp
			for _, op := range log {
				if op.seq > after {
					want = append(want, op)
				}
			}
			verif.Assert(len(got) == len(want), "replays-exactly-the-operations-after-the-marker")
			if len(got) == len(want) {
				for i, op := range want {
					verif.Assert(bytes.Equal(got[i].K, op.key) && got[i].Deleted == op.del, "replayed-operation-matches")
					if !op.del {
						verif.Assert(bytes.Equal(got[i].V, op.val), "replayed-value-matches")
					}
				}
			}
		}
	}
	verif.Reached()
}
