// pbgen: minimal proto3 parser -> FileDescriptorProto -> CodeGeneratorRequest -> protoc-gen-go.
package main

import (
	"bytes"
	"fmt"
	"os"
	"os/exec"
	"path/filepath"
	"regexp"
	"strings"

	"google.golang.org/protobuf/proto"
	"google.golang.org/protobuf/reflect/protodesc"
	"google.golang.org/protobuf/reflect/protoreflect"
	"google.golang.org/protobuf/reflect/protoregistry"
	"google.golang.org/protobuf/types/descriptorpb"
	"google.golang.org/protobuf/types/pluginpb"

	_ "google.golang.org/protobuf/types/known/durationpb"
	_ "google.golang.org/protobuf/types/known/timestamppb"
	_ "reduction.dev/reduction-protocol/handlerpb"
	_ "reduction.dev/reduction-protocol/jobconfigpb"
)

var scalar = map[string]descriptorpb.FieldDescriptorProto_Type{
	"double": descriptorpb.FieldDescriptorProto_TYPE_DOUBLE, "float": descriptorpb.FieldDescriptorProto_TYPE_FLOAT,
	"int32": descriptorpb.FieldDescriptorProto_TYPE_INT32, "int64": descriptorpb.FieldDescriptorProto_TYPE_INT64,
	"uint32": descriptorpb.FieldDescriptorProto_TYPE_UINT32, "uint64": descriptorpb.FieldDescriptorProto_TYPE_UINT64,
	"sint32": descriptorpb.FieldDescriptorProto_TYPE_SINT32, "sint64": descriptorpb.FieldDescriptorProto_TYPE_SINT64,
	"fixed32": descriptorpb.FieldDescriptorProto_TYPE_FIXED32, "fixed64": descriptorpb.FieldDescriptorProto_TYPE_FIXED64,
	"bool": descriptorpb.FieldDescriptorProto_TYPE_BOOL, "string": descriptorpb.FieldDescriptorProto_TYPE_STRING,
	"bytes": descriptorpb.FieldDescriptorProto_TYPE_BYTES,
}

type tok struct{ s []string; i int }

func (t *tok) peek() string { if t.i < len(t.s) { return t.s[t.i] }; return "" }
func (t *tok) next() string { v := t.peek(); t.i++; return v }
func (t *tok) expect(x string) { if v := t.next(); v != x { panic(fmt.Sprintf("expected %q got %q at %d", x, v, t.i)) } }

var tokRe = regexp.MustCompile(`"[^"]*"|[A-Za-z_][A-Za-z0-9_.]*|[0-9]+|[{}()\[\]=;,<>]`)
var commentRe = regexp.MustCompile(`(?m)//.*$`)

func camelJSON(s string) string {
	parts := strings.Split(s, "_")
	for i := 1; i < len(parts); i++ {
		if parts[i] != "" { parts[i] = strings.ToUpper(parts[i][:1]) + parts[i][1:] }
	}
	return strings.Join(parts, "")
}

func parseFile(name string, src string) *descriptorpb.FileDescriptorProto {
	src = commentRe.ReplaceAllString(src, "")
	t := &tok{s: tokRe.FindAllString(src, -1)}
	fd := &descriptorpb.FileDescriptorProto{Name: proto.String(name), Syntax: proto.String("proto3"), Options: &descriptorpb.FileOptions{}}
	for t.peek() != "" {
		switch k := t.next(); k {
		case "syntax":
			t.expect("="); t.next(); t.expect(";")
		case "package":
			fd.Package = proto.String(t.next()); t.expect(";")
		case "import":
			fd.Dependency = append(fd.Dependency, strings.Trim(t.next(), `"`)); t.expect(";")
		case "option":
			n := t.next(); t.expect("="); v := strings.Trim(t.next(), `"`); t.expect(";")
			if n == "go_package" { fd.Options.GoPackage = proto.String(v) }
		case "message":
			fd.MessageType = append(fd.MessageType, parseMessage(t))
		case "service":
			fd.Service = append(fd.Service, parseService(t))
		default:
			panic("unexpected top-level token " + k)
		}
	}
	return fd
}

func parseField(t *tok, first string, oneofIdx *int32) *descriptorpb.FieldDescriptorProto {
	f := &descriptorpb.FieldDescriptorProto{Label: descriptorpb.FieldDescriptorProto_LABEL_OPTIONAL.Enum()}
	typ := first
	if typ == "repeated" { f.Label = descriptorpb.FieldDescriptorProto_LABEL_REPEATED.Enum(); typ = t.next() }
	if typ == "optional" { f.Proto3Optional = proto.Bool(true); typ = t.next() }
	if st, ok := scalar[typ]; ok { f.Type = st.Enum() } else { f.TypeName = proto.String(typ) } // resolved later
	f.Name = proto.String(t.next())
	f.JsonName = proto.String(camelJSON(f.GetName()))
	t.expect("=")
	var num int32
	fmt.Sscanf(t.next(), "%d", &num)
	f.Number = proto.Int32(num)
	t.expect(";")
	if oneofIdx != nil { f.OneofIndex = proto.Int32(*oneofIdx) }
	return f
}

func parseMessage(t *tok) *descriptorpb.DescriptorProto {
	m := &descriptorpb.DescriptorProto{Name: proto.String(t.next())}
	t.expect("{")
	for t.peek() != "}" {
		switch k := t.next(); k {
		case "message":
			m.NestedType = append(m.NestedType, parseMessage(t))
		case "oneof":
			idx := int32(len(m.OneofDecl))
			m.OneofDecl = append(m.OneofDecl, &descriptorpb.OneofDescriptorProto{Name: proto.String(t.next())})
			t.expect("{")
			for t.peek() != "}" { m.Field = append(m.Field, parseField(t, t.next(), &idx)) }
			t.expect("}")
		default:
			m.Field = append(m.Field, parseField(t, k, nil))
		}
	}
	t.expect("}")
	return m
}

func parseService(t *tok) *descriptorpb.ServiceDescriptorProto {
	s := &descriptorpb.ServiceDescriptorProto{Name: proto.String(t.next())}
	t.expect("{")
	for t.peek() != "}" {
		t.expect("rpc")
		m := &descriptorpb.MethodDescriptorProto{Name: proto.String(t.next())}
		t.expect("("); m.InputType = proto.String(t.next()); t.expect(")")
		t.expect("returns")
		t.expect("("); m.OutputType = proto.String(t.next()); t.expect(")")
		if t.peek() == "{" { t.next(); t.expect("}") } else { t.expect(";") }
		s.Method = append(s.Method, m)
	}
	t.expect("}")
	return s
}

// resolve type names: scope = package; search own file + deps for message full names.
func resolve(fd *descriptorpb.FileDescriptorProto, known map[string]bool) {
	lookup := func(scope, name string) string {
		if strings.HasPrefix(name, ".") { return name }
		parts := strings.Split(scope, ".")
		for i := len(parts); i >= 0; i-- {
			cand := strings.Join(append(append([]string{}, parts[:i]...), name), ".")
			cand = strings.TrimPrefix(cand, ".")
			if known[cand] { return "." + cand }
		}
		panic("cannot resolve " + name + " in " + scope)
	}
	var walk func(scope string, m *descriptorpb.DescriptorProto)
	walk = func(scope string, m *descriptorpb.DescriptorProto) {
		full := scope + "." + m.GetName()
		for _, f := range m.Field {
			if f.TypeName != nil {
				f.TypeName = proto.String(lookup(full, f.GetTypeName()))
				f.Type = descriptorpb.FieldDescriptorProto_TYPE_MESSAGE.Enum()
			}
		}
		for _, n := range m.NestedType { walk(full, n) }
	}
	for _, m := range fd.MessageType { walk(fd.GetPackage(), m) }
	for _, s := range fd.Service {
		for _, m := range s.Method {
			m.InputType = proto.String(lookup(fd.GetPackage(), m.GetInputType()))
			m.OutputType = proto.String(lookup(fd.GetPackage(), m.GetOutputType()))
		}
	}
}

func collectNames(fd *descriptorpb.FileDescriptorProto, known map[string]bool) {
	var walk func(scope string, m *descriptorpb.DescriptorProto)
	walk = func(scope string, m *descriptorpb.DescriptorProto) {
		full := strings.TrimPrefix(scope+"."+m.GetName(), ".")
		known[full] = true
		for _, n := range m.NestedType { walk(full, n) }
	}
	for _, m := range fd.MessageType { walk(fd.GetPackage(), m) }
}

func main() {
	// usage: pbgen <repo> <outdir> <bindir> file.proto...
	repo, out, bindir := os.Args[1], os.Args[2], os.Args[3]
	files := os.Args[4:]
	var all []*descriptorpb.FileDescriptorProto
	have := map[string]bool{}
	known := map[string]bool{}
	// registry deps in topological order
	var addReg func(fd protoreflect.FileDescriptor)
	addReg = func(fd protoreflect.FileDescriptor) {
		if have[fd.Path()] { return }
		imps := fd.Imports()
		for i := 0; i < imps.Len(); i++ { addReg(imps.Get(i).FileDescriptor) }
		have[fd.Path()] = true
		p := protodesc.ToFileDescriptorProto(fd)
		all = append(all, p)
		collectNames(p, known)
	}
	parsed := map[string]*descriptorpb.FileDescriptorProto{}
	for _, f := range files {
		b, err := os.ReadFile(filepath.Join(repo, f))
		if err != nil { panic(err) }
		parsed[f] = parseFile(f, string(b))
		collectNames(parsed[f], known)
	}
	var addParsed func(name string)
	addParsed = func(name string) {
		if have[name] { return }
		if p, ok := parsed[name]; ok {
			for _, d := range p.Dependency { addParsed(d) }
			have[name] = true
			resolve(p, known)
			all = append(all, p)
			return
		}
		fd, err := protoregistry.GlobalFiles.FindFileByPath(name)
		if err != nil { panic(fmt.Sprintf("dep %s: %v", name, err)) }
		addReg(fd)
	}
	for _, f := range files { addParsed(f) }

	// validate
	if _, err := protodesc.NewFiles(&descriptorpb.FileDescriptorSet{File: all}); err != nil { panic(err) }

	for _, plugin := range []struct{ bin, param string }{{filepath.Join(bindir, "protoc-gen-go"), "paths=source_relative"}, {filepath.Join(bindir, "protoc-gen-connect-go"), "paths=source_relative"}} {
		req := &pluginpb.CodeGeneratorRequest{FileToGenerate: files, Parameter: proto.String(plugin.param), ProtoFile: all,
			CompilerVersion: &pluginpb.Version{Major: proto.Int32(5), Minor: proto.Int32(29), Patch: proto.Int32(3)}}
		in, _ := proto.Marshal(req)
		cmd := exec.Command(plugin.bin)
		cmd.Stdin = bytes.NewReader(in)
		var ob bytes.Buffer
		cmd.Stdout = &ob
		cmd.Stderr = os.Stderr
		if err := cmd.Run(); err != nil { panic(err) }
		var resp pluginpb.CodeGeneratorResponse
		if err := proto.Unmarshal(ob.Bytes(), &resp); err != nil { panic(err) }
		if resp.Error != nil { panic(*resp.Error) }
		for _, f := range resp.File {
			p := filepath.Join(out, f.GetName())
			os.MkdirAll(filepath.Dir(p), 0o755)
			os.WriteFile(p, []byte(f.GetContent()), 0o644)
		}
	}
}
