package interp

// Symbolic terms: an immutable DAG of SMT-LIB bit-vector / Bool expressions
// with constant folding. Sharing is by pointer; the solver session gives every
// non-leaf node a define-fun so that a term is never printed twice.

import (
	"fmt"
	"go/types"
	"math/bits"
	"strings"
	"sync/atomic"
)

type term struct {
	op   string // "var" "const" or an SMT-LIB operator; "extract" "zext" "sext" carry parameters in p0,p1
	w    int    // 0 = Bool, otherwise bit-vector width
	args []*term
	val  uint64 // const value (masked); Bool: 0/1
	p0   int    // extract hi / extension amount
	p1   int    // extract lo
	name string // var name
	id   int64
	tab  []uint64 // lut: table of constants
}

var termCounter int64

func newTerm(op string, w int, args ...*term) *term {
	return &term{op: op, w: w, args: args, id: atomic.AddInt64(&termCounter, 1)}
}

func mask(w int) uint64 {
	if w >= 64 {
		return ^uint64(0)
	}
	return (uint64(1) << uint(w)) - 1
}

func tConst(w int, v uint64) *term {
	return &term{op: "const", w: w, val: v & mask(w), id: atomic.AddInt64(&termCounter, 1)}
}

var tTrue = &term{op: "const", w: 0, val: 1, id: -1}
var tFalse = &term{op: "const", w: 0, val: 0, id: -2}

func tBool(b bool) *term {
	if b {
		return tTrue
	}
	return tFalse
}

func (t *term) isConst() bool { return t.op == "const" }

func (t *term) isTrue() bool  { return t.op == "const" && t.w == 0 && t.val == 1 }
func (t *term) isFalse() bool { return t.op == "const" && t.w == 0 && t.val == 0 }

func signExt(v uint64, w int) int64 {
	if w >= 64 {
		return int64(v)
	}
	sh := uint(64 - w)
	return int64(v<<sh) >> sh
}

// tBin builds a bit-vector binary operation with folding.
func tBin(op string, a, b *term) *term {
	w := a.w
	if a.isConst() && b.isConst() {
		x, y := a.val, b.val
		var r uint64
		ok := true
		switch op {
		case "bvadd":
			r = x + y
		case "bvsub":
			r = x - y
		case "bvmul":
			r = x * y
		case "bvand":
			r = x & y
		case "bvor":
			r = x | y
		case "bvxor":
			r = x ^ y
		case "bvudiv":
			if y == 0 {
				r = mask(w)
			} else {
				r = x / y
			}
		case "bvurem":
			if y == 0 {
				r = x
			} else {
				r = x % y
			}
		case "bvsdiv":
			sx, sy := signExt(x, w), signExt(y, w)
			if sy == 0 {
				ok = false
			} else if sy == -1 {
				r = uint64(-sx)
			} else {
				r = uint64(sx / sy)
			}
		case "bvsrem":
			sx, sy := signExt(x, w), signExt(y, w)
			if sy == 0 {
				ok = false
			} else if sy == -1 {
				r = 0
			} else {
				r = uint64(sx % sy)
			}
		case "bvshl":
			if y >= uint64(w) {
				r = 0
			} else {
				r = x << y
			}
		case "bvlshr":
			if y >= uint64(w) {
				r = 0
			} else {
				r = x >> y
			}
		case "bvashr":
			sx := signExt(x, w)
			if y >= uint64(w) {
				if sx < 0 {
					r = mask(w)
				} else {
					r = 0
				}
			} else {
				r = uint64(sx >> y)
			}
		default:
			ok = false
		}
		if ok {
			return tConst(w, r)
		}
	}
	if a.op == "lut" && b.isConst() && len(a.tab) <= 256 {
		bc := b
		return lutMap(a, w, func(v uint64) uint64 { return tBin(op, tConst(w, v), bc).val })
	}
	// cheap identities
	switch op {
	case "bvadd", "bvor", "bvxor":
		if a.isConst() && a.val == 0 {
			return b
		}
		if b.isConst() && b.val == 0 {
			return a
		}
	case "bvsub", "bvshl", "bvlshr", "bvashr":
		if b.isConst() && b.val == 0 {
			return a
		}
	case "bvand":
		if a.isConst() && a.val == 0 {
			return a
		}
		if b.isConst() && b.val == 0 {
			return b
		}
		if a.isConst() && a.val == mask(w) {
			return b
		}
		if b.isConst() && b.val == mask(w) {
			return a
		}
	case "bvmul":
		if a.isConst() && a.val == 1 {
			return b
		}
		if b.isConst() && b.val == 1 {
			return a
		}
		if (a.isConst() && a.val == 0) || (b.isConst() && b.val == 0) {
			return tConst(w, 0)
		}
	}
	return newTerm(op, w, a, b)
}

// tCmp builds a comparison (result Bool).
func tCmp(op string, a, b *term) *term {
	if a.isConst() && b.isConst() {
		x, y := a.val, b.val
		sx, sy := signExt(x, a.w), signExt(y, a.w)
		switch op {
		case "=":
			return tBool(x == y)
		case "bvult":
			return tBool(x < y)
		case "bvule":
			return tBool(x <= y)
		case "bvugt":
			return tBool(x > y)
		case "bvuge":
			return tBool(x >= y)
		case "bvslt":
			return tBool(sx < sy)
		case "bvsle":
			return tBool(sx <= sy)
		case "bvsgt":
			return tBool(sx > sy)
		case "bvsge":
			return tBool(sx >= sy)
		}
	}
	if a == b {
		switch op {
		case "=", "bvule", "bvuge", "bvsle", "bvsge":
			return tTrue
		default:
			return tFalse
		}
	}
	if op == "=" && a.op == "lut" && b.op == "lut" && a.args[0].w == b.args[0].w && sameInjectiveTable(a.tab, b.tab) {
		// equal entries of one injective table have equal indices (both reads are guarded in range)
		return tCmp("=", a.args[0], b.args[0])
	}
	if a.op == "lut" && b.isConst() {
		aw, bv := a.w, b.val
		return lutMap(a, 0, func(v uint64) uint64 {
			if tCmpConst(op, aw, v, bv) {
				return 1
			}
			return 0
		})
	}
	if b.op == "lut" && a.isConst() {
		bw, av := b.w, a.val
		return lutMap(b, 0, func(v uint64) uint64 {
			if tCmpConst(op, bw, av, v) {
				return 1
			}
			return 0
		})
	}
	return newTerm(op, 0, a, b)
}

func tEq(a, b *term) *term {
	if a.w == 0 {
		// Bool equality
		if a.isConst() {
			if a.isTrue() {
				return b
			}
			return tNot(b)
		}
		if b.isConst() {
			if b.isTrue() {
				return a
			}
			return tNot(a)
		}
		if a == b {
			return tTrue
		}
		return newTerm("=", 0, a, b)
	}
	return tCmp("=", a, b)
}

func tNot(a *term) *term {
	if a.isConst() {
		return tBool(a.val == 0)
	}
	if a.op == "not" {
		return a.args[0]
	}
	return newTerm("not", 0, a)
}

func tAnd(a, b *term) *term {
	if a.isFalse() || b.isFalse() {
		return tFalse
	}
	if a.isTrue() {
		return b
	}
	if b.isTrue() {
		return a
	}
	if a == b {
		return a
	}
	return newTerm("and", 0, a, b)
}

func tOr(a, b *term) *term {
	if a.isTrue() || b.isTrue() {
		return tTrue
	}
	if a.isFalse() {
		return b
	}
	if b.isFalse() {
		return a
	}
	if a == b {
		return a
	}
	return newTerm("or", 0, a, b)
}

func tIte(c, a, b *term) *term {
	if c.isTrue() {
		return a
	}
	if c.isFalse() {
		return b
	}
	if a == b {
		return a
	}
	if a.isConst() && b.isConst() && a.w == b.w && a.val == b.val {
		return a
	}
	if a.w == 0 {
		if a.isTrue() && b.isFalse() {
			return c
		}
		if a.isFalse() && b.isTrue() {
			return tNot(c)
		}
	}
	return newTerm("ite", a.w, c, a, b)
}

func tBvNot(a *term) *term {
	if a.isConst() {
		return tConst(a.w, ^a.val)
	}
	return newTerm("bvnot", a.w, a)
}

func tBvNeg(a *term) *term {
	if a.isConst() {
		return tConst(a.w, -a.val)
	}
	return newTerm("bvneg", a.w, a)
}

func tExtract(hi, lo int, a *term) *term {
	w := hi - lo + 1
	if lo == 0 && w == a.w {
		return a
	}
	if a.isConst() {
		return tConst(w, a.val>>uint(lo))
	}
	if a.op == "lut" {
		return lutMap(a, w, func(v uint64) uint64 { return v >> uint(lo) })
	}
	// extract of zero/sign extension back to (or below) the original width
	if (a.op == "zext" || a.op == "sext") && lo == 0 && hi < a.args[0].w {
		return tExtract(hi, 0, a.args[0])
	}
	if a.op == "zext" && lo == 0 && w == a.args[0].w {
		return a.args[0]
	}
	if a.op == "concat" {
		lw := a.args[1].w
		if hi < lw {
			return tExtract(hi, lo, a.args[1])
		}
		if lo >= lw {
			return tExtract(hi-lw, lo-lw, a.args[0])
		}
	}
	t := newTerm("extract", w, a)
	t.p0, t.p1 = hi, lo
	return t
}

func tZext(n int, a *term) *term {
	if n == 0 {
		return a
	}
	if a.isConst() {
		return tConst(a.w+n, a.val)
	}
	if a.op == "lut" {
		return lutMap(a, a.w+n, func(v uint64) uint64 { return v })
	}
	t := newTerm("zext", a.w+n, a)
	t.p0 = n
	return t
}

func tSext(n int, a *term) *term {
	if n == 0 {
		return a
	}
	if a.isConst() {
		return tConst(a.w+n, uint64(signExt(a.val, a.w)))
	}
	if a.op == "lut" {
		aw := a.w
		return lutMap(a, a.w+n, func(v uint64) uint64 { return uint64(signExt(v, aw)) })
	}
	t := newTerm("sext", a.w+n, a)
	t.p0 = n
	return t
}

func tConcat(hi, lo *term) *term {
	if hi.isConst() && lo.isConst() && hi.w+lo.w <= 64 {
		return tConst(hi.w+lo.w, hi.val<<uint(lo.w)|lo.val)
	}
	return newTerm("concat", hi.w+lo.w, hi, lo)
}

func tVar(name string, w int) *term {
	t := newTerm("var", w)
	t.name = name
	return t
}

func sortOf(w int) string {
	if w == 0 {
		return "Bool"
	}
	return fmt.Sprintf("(_ BitVec %d)", w)
}

func bvLit(w int, u uint64) string {
	u &= mask(w)
	if w%4 == 0 {
		return fmt.Sprintf("#x%0*x", w/4, u)
	}
	return fmt.Sprintf("#b%0*b", w, u)
}

// ref returns how a term is referred to once defined.
func (t *term) ref() string {
	switch t.op {
	case "const":
		if t.w == 0 {
			if t.val == 1 {
				return "true"
			}
			return "false"
		}
		return bvLit(t.w, t.val)
	case "var":
		return "|" + t.name + "|"
	}
	return fmt.Sprintf("t%d", t.id)
}

// body prints the node with its children by reference.
func (t *term) body() string {
	var sb strings.Builder
	switch t.op {
	case "lut":
		return t.lutBody()
	case "extract":
		fmt.Fprintf(&sb, "((_ extract %d %d) %s)", t.p0, t.p1, t.args[0].ref())
	case "zext":
		fmt.Fprintf(&sb, "((_ zero_extend %d) %s)", t.p0, t.args[0].ref())
	case "sext":
		fmt.Fprintf(&sb, "((_ sign_extend %d) %s)", t.p0, t.args[0].ref())
	default:
		sb.WriteByte('(')
		sb.WriteString(t.op)
		for _, a := range t.args {
			sb.WriteByte(' ')
			sb.WriteString(a.ref())
		}
		sb.WriteByte(')')
	}
	return sb.String()
}

// String prints a term fully expanded (for samples / debugging only; bounded).
func (t *term) String() string {
	var sb strings.Builder
	budget := 400
	var rec func(t *term)
	rec = func(t *term) {
		if budget <= 0 {
			sb.WriteString("…")
			return
		}
		budget--
		switch t.op {
		case "const", "var":
			sb.WriteString(strings.Trim(t.ref(), "|"))
			return
		case "lut":
			fmt.Fprintf(&sb, "(table%d ", len(t.tab))
		case "extract":
			fmt.Fprintf(&sb, "(extract[%d:%d] ", t.p0, t.p1)
		case "zext":
			fmt.Fprintf(&sb, "(zext%d ", t.p0)
		case "sext":
			fmt.Fprintf(&sb, "(sext%d ", t.p0)
		default:
			sb.WriteByte('(')
			sb.WriteString(t.op)
			sb.WriteByte(' ')
		}
		for i, a := range t.args {
			if i > 0 {
				sb.WriteByte(' ')
			}
			rec(a)
		}
		sb.WriteByte(')')
	}
	rec(t)
	return sb.String()
}

// eval evaluates a term under a model (var name -> value).
func (t *term) eval(model map[string]uint64, memo map[*term]uint64) uint64 {
	if v, ok := memo[t]; ok {
		return v
	}
	var r uint64
	a := func(i int) uint64 { return t.args[i].eval(model, memo) }
	b2u := func(b bool) uint64 {
		if b {
			return 1
		}
		return 0
	}
	switch t.op {
	case "const":
		r = t.val
	case "var":
		r = model[t.name] & mask(max1(t.w))
	case "lut":
		i := a(0)
		if i >= uint64(len(t.tab)) {
			i = uint64(len(t.tab) - 1)
		}
		r = t.tab[i]
	case "not":
		r = 1 - a(0)
	case "and":
		r = a(0) & a(1)
	case "or":
		r = a(0) | a(1)
	case "ite":
		if a(0) == 1 {
			r = a(1)
		} else {
			r = a(2)
		}
	case "extract":
		r = (a(0) >> uint(t.p1)) & mask(t.w)
	case "zext":
		r = a(0)
	case "sext":
		r = uint64(signExt(a(0), t.args[0].w)) & mask(t.w)
	case "concat":
		r = (a(0)<<uint(t.args[1].w) | a(1)) & mask(t.w)
	case "bvnot":
		r = ^a(0) & mask(t.w)
	case "bvneg":
		r = -a(0) & mask(t.w)
	case "=", "bvult", "bvule", "bvugt", "bvuge", "bvslt", "bvsle", "bvsgt", "bvsge":
		c := tCmpConst(t.op, t.args[0].w, a(0), a(1))
		r = b2u(c)
	default:
		x := tConst(t.w, a(0))
		y := tConst(t.w, a(1))
		f := tBin(t.op, x, y)
		if !f.isConst() {
			panic("eval: cannot fold " + t.op)
		}
		r = f.val
	}
	memo[t] = r
	return r
}

func max1(w int) int {
	if w == 0 {
		return 1
	}
	return w
}

func tCmpConst(op string, w int, x, y uint64) bool {
	if w == 0 {
		w = 1
	}
	c := tCmp(op, tConst(w, x), tConst(w, y))
	return c.isTrue()
}

var _ = bits.Len

// ---------------------------------------------------------------- sym values

// sym is a symbolic scalar (bool or integer) as held in interpreter values.
type sym struct {
	t *term
	k types.BasicKind
}

func kindInfo(k types.BasicKind) (w int, signed bool) {
	switch k {
	case types.Bool, types.UntypedBool:
		return 0, false
	case types.Int8:
		return 8, true
	case types.Uint8:
		return 8, false
	case types.Int16:
		return 16, true
	case types.Uint16:
		return 16, false
	case types.Int32, types.UntypedRune:
		return 32, true
	case types.Uint32:
		return 32, false
	case types.Int, types.Int64, types.UntypedInt:
		return 64, true
	case types.Uint, types.Uint64, types.Uintptr:
		return 64, false
	}
	return -1, false
}

func kindOfValue(v value) types.BasicKind {
	switch v := v.(type) {
	case bool:
		return types.Bool
	case int:
		return types.Int
	case int8:
		return types.Int8
	case int16:
		return types.Int16
	case int32:
		return types.Int32
	case int64:
		return types.Int64
	case uint:
		return types.Uint
	case uint8:
		return types.Uint8
	case uint16:
		return types.Uint16
	case uint32:
		return types.Uint32
	case uint64:
		return types.Uint64
	case uintptr:
		return types.Uintptr
	case sym:
		return v.k
	}
	return types.Invalid
}

// toSym lifts a concrete scalar to a sym of the same kind.
func toSym(v value) sym {
	if s, ok := v.(sym); ok {
		return s
	}
	k := kindOfValue(v)
	if k == types.Invalid {
		panic(unsupported(fmt.Sprintf("toSym of %T", v)))
	}
	if k == types.Bool {
		return sym{tBool(v.(bool)), k}
	}
	w, sg := kindInfo(k)
	var u uint64
	if sg {
		u = uint64(asInt64(v))
	} else {
		u = asUint64(v)
	}
	return sym{tConst(w, u), k}
}

// fromTerm lowers a term back to a concrete Go value when it is constant.
func fromTerm(t *term, k types.BasicKind) value {
	if !t.isConst() {
		return sym{t, k}
	}
	return concreteOfKind(k, t.val)
}

func concreteOfKind(k types.BasicKind, u uint64) value {
	switch k {
	case types.Bool, types.UntypedBool:
		return u != 0
	case types.Int, types.UntypedInt:
		return int(int64(u))
	case types.Int8:
		return int8(u)
	case types.Int16:
		return int16(u)
	case types.Int32, types.UntypedRune:
		return int32(u)
	case types.Int64:
		return int64(u)
	case types.Uint:
		return uint(u)
	case types.Uint8:
		return uint8(u)
	case types.Uint16:
		return uint16(u)
	case types.Uint32:
		return uint32(u)
	case types.Uint64:
		return u
	case types.Uintptr:
		return uintptr(u)
	}
	panic(unsupported(fmt.Sprintf("concreteOfKind %v", k)))
}

func isSym(v value) bool { _, ok := v.(sym); return ok }

// unsupported is panicked when the engine meets something it cannot model;
// the path is then inconclusive (never a pass, never an alarm).
type unsupported string

func (u unsupported) Error() string { return "unsupported: " + string(u) }

// termUB is a cheap syntactic upper bound (unsigned) of a bit-vector term.
func termUB(t *term) uint64 {
	return termUBd(t, 0)
}

func termUBd(t *term, d int) uint64 {
	full := mask(max1(t.w))
	if d > 12 {
		return full
	}
	switch t.op {
	case "const":
		return t.val
	case "lut":
		m := uint64(0)
		for _, v := range t.tab {
			if v > m {
				m = v
			}
		}
		return m
	case "bvand":
		a, b := termUBd(t.args[0], d+1), termUBd(t.args[1], d+1)
		if a < b {
			return a
		}
		return b
	case "bvurem":
		if t.args[1].isConst() && t.args[1].val > 0 {
			return t.args[1].val - 1
		}
		return termUBd(t.args[0], d+1)
	case "bvudiv":
		if t.args[1].isConst() && t.args[1].val > 0 {
			return termUBd(t.args[0], d+1) / t.args[1].val
		}
	case "bvlshr":
		if t.args[1].isConst() {
			if t.args[1].val >= uint64(t.w) {
				return 0
			}
			return termUBd(t.args[0], d+1) >> t.args[1].val
		}
	case "zext":
		return termUBd(t.args[0], d+1)
	case "extract":
		if t.p1 == 0 {
			u := termUBd(t.args[0], d+1)
			if u < full {
				return u
			}
		}
		return full
	case "ite":
		a, b := termUBd(t.args[1], d+1), termUBd(t.args[2], d+1)
		if a > b {
			return a
		}
		return b
	case "bvor", "bvxor":
		a, b := termUBd(t.args[0], d+1), termUBd(t.args[1], d+1)
		m := a | b
		// round up to all-ones of the same bit length
		n := uint64(1)
		for n <= m && n != 0 {
			n <<= 1
		}
		if n == 0 {
			return full
		}
		return n - 1
	}
	return full
}

// ---------------------------------------------------------------- constant lookup tables
//
// lut(table, idx) = table[idx] for a table of constants. Keeping table reads as one node
// lets reads of reads compose concretely (decodeMap[encodeMap[v]] folds to v) and lets
// comparisons with constants fold without a solver call.

func tLut(table []uint64, w int, idx *term) *term {
	n := len(table)
	if idx.isConst() {
		i := idx.val
		if i >= uint64(n) {
			i = uint64(n - 1)
		}
		if w == 0 {
			return tBool(table[i] != 0)
		}
		return tConst(w, table[i])
	}
	// compose with an inner table read
	if idx.op == "lut" {
		inner := idx.tab
		ok := true
		comp := make([]uint64, len(inner))
		for i, v := range inner {
			if v >= uint64(n) {
				ok = false
				break
			}
			comp[i] = table[v]
		}
		if ok {
			return tLut(comp, w, idx.args[0])
		}
	}
	// all entries equal
	same := true
	for _, v := range table[1:] {
		if v != table[0] {
			same = false
			break
		}
	}
	if same {
		if w == 0 {
			return tBool(table[0] != 0)
		}
		return tConst(w, table[0])
	}
	// identity table (valid under the bounds guard idx < n that precedes every read)
	if w > 0 {
		ident := true
		for i, v := range table {
			if v != uint64(i) {
				ident = false
				break
			}
		}
		if ident && uint64(n-1) <= mask(w) {
			switch {
			case w == idx.w:
				return idx
			case w > idx.w:
				return tZext(w-idx.w, idx)
			default:
				return tExtract(w-1, 0, idx)
			}
		}
	}
	t := newTerm("lut", w, idx)
	t.tab = append([]uint64(nil), table...)
	return t
}

// lutMap applies f to every entry of a lut node.
func lutMap(t *term, w int, f func(uint64) uint64) *term {
	nt := make([]uint64, len(t.tab))
	for i, v := range t.tab {
		nt[i] = f(v) & mask(max1(w))
	}
	return tLut(nt, w, t.args[0])
}

func (t *term) lutBody() string {
	var sb strings.Builder
	idx := t.args[0]
	lit := func(v uint64) string {
		if t.w == 0 {
			if v != 0 {
				return "true"
			}
			return "false"
		}
		return bvLit(t.w, v)
	}
	n := len(t.tab)
	for i := 0; i < n-1; i++ {
		fmt.Fprintf(&sb, "(ite (= %s %s) %s ", idx.ref(), bvLit(idx.w, uint64(i)), lit(t.tab[i]))
	}
	sb.WriteString(lit(t.tab[n-1]))
	for i := 0; i < n-1; i++ {
		sb.WriteByte(')')
	}
	return sb.String()
}

func sameInjectiveTable(a, b []uint64) bool {
	if len(a) != len(b) || len(a) > 4096 {
		return false
	}
	seen := make(map[uint64]bool, len(a))
	for i := range a {
		if a[i] != b[i] || seen[a[i]] {
			return false
		}
		seen[a[i]] = true
	}
	return true
}
