package interp

// Intrinsics: functions the interpreter models instead of interpreting
// (each one is part of the claim; see DESIGN.md §2.6).

import (
	"fmt"
	"go/token"
	"go/types"
	"path"
	"path/filepath"
	"strconv"
	"strings"
	"unsafe"

	"golang.org/x/tools/go/ssa"
)

// prefixIntrinsics are matched by prefix of fn.String() (generic instantiations).
var prefixIntrinsics = map[string]externalFn{}

// VerifPkg is the import path of the harness runtime package.
const VerifPkg = "reduction.dev/reduction/zz_verif"

func noteStub(name string) {
	if CurPath != nil {
		CurPath.Stubs[name] = true
	}
}

// callIntrinsic dispatches package-level functions/methods that are modelled.
func callIntrinsic(i *interpreter, fr *frame, fn *ssa.Function, args []value) (value, bool) {
	name := fn.String()
	if fn.Name() == "init" && fn.Pkg != nil && fn.Signature.Recv() == nil && InitAllow != nil && !InitAllow(fn.Pkg.Pkg.Path()) {
		return nil, true
	}
	if ext := externals[name]; ext != nil {
		return ext(fr, args), true
	}
	if r, ok := callAbstract(fn, args); ok {
		return r, true
	}
	if fn.Signature.Recv() == nil && len(fn.TypeArgs()) > 0 || strings.Contains(name, "[") {
		if k := strings.IndexByte(name, '['); k > 0 {
			key := name[:k]
			if k2 := strings.LastIndexByte(name, ']'); k2 > k && k2+1 < len(name) {
				key += name[k2+1:] // method of generic type: (*pkg.T[...]).M -> (*pkg.T).M
			}
			if ext := prefixIntrinsics[key]; ext != nil {
				fr.fn = fn
				return ext(fr, args), true
			}
		}
	}
	pp := fnPkgPath(fn)
	if StubPkgs[pp] {
		noteStub(pp)
		return zeroResult(fn), true
	}
	if pp == "log/slog" {
		noteStub("log/slog")
		if name == "log/slog.With" || name == "log/slog.Default" || name == "(*log/slog.Logger).With" || name == "log/slog.New" {
			var v value = (*value)(nil)
			return v, true
		}
		return zeroResult(fn), true
	}
	return nil, false
}

func hostArgs(i *interpreter, args []value) []interface{} {
	out := make([]interface{}, len(args))
	for k, a := range args {
		out[k] = hostArg(i, a)
	}
	return out
}

func hostArg(i *interpreter, a value) interface{} {
	if ifc, ok := a.(iface); ok {
		if ifc.t != nil {
			// errors and Stringers print through their methods
			for _, mn := range []string{"Error", "String"} {
				if m := findMethod(i, ifc.t, mn); m != nil && m.Signature.Params().Len() == 0 && m.Signature.Results().Len() == 1 {
					var out interface{}
					func() {
						defer func() {
							if r := recover(); r != nil {
								if _, ok := r.(enginePanic); ok {
									panic(r)
								}
							}
						}()
						if s, ok := call(i, nil, token.NoPos, m, []value{ifc.v}).(string); ok {
							out = s
						}
					}()
					if out != nil {
						return out
					}
				}
			}
		}
		a = ifc.v
	}
	switch x := a.(type) {
	case bool, int, int8, int16, int32, int64, uint, uint8, uint16, uint32, uint64, uintptr, string, float64, float32:
		return x
	case nil:
		return nil
	case sym:
		return "<sym>"
	case symstr:
		return "<symstr>"
	case []value:
		// []byte prints as bytes when concrete
		bs := make([]byte, 0, len(x))
		for _, e := range x {
			b, ok := e.(uint8)
			if !ok {
				return toString(a)
			}
			bs = append(bs, b)
		}
		return bs
	default:
		return toString(a)
	}
}

func strs(v value) []string {
	xs := v.([]value)
	out := make([]string, len(xs))
	for i, x := range xs {
		s, ok := x.(string)
		if !ok {
			panic(unsupported("string operation on symbolic string"))
		}
		out[i] = s
	}
	return out
}

func cstr(v value) string {
	s, ok := v.(string)
	if !ok {
		panic(unsupported("string operation on symbolic string"))
	}
	return s
}

func valsOfStrings(ss []string) []value {
	out := make([]value, len(ss))
	for i, s := range ss {
		out[i] = s
	}
	return out
}

func bytesToVals(b []byte) []value {
	out := make([]value, len(b))
	for i, x := range b {
		out[i] = x
	}
	return out
}

func mkError(fr *frame, msg string) value {
	errorsNew := fr.i.prog.ImportedPackage("errors").Func("New")
	return call(fr.i, fr, 0, errorsNew, []value{msg})
}

func errIface(v value) iface {
	if v == nil {
		return iface{}
	}
	return v.(iface)
}

func init() {
	nop := func(fr *frame, args []value) value { return nil }
	ext := externals

	// ---- sync
	ext["(*sync.Mutex).Lock"] = func(fr *frame, args []value) value { Sched.lock(args[0].(*value)); return nil }
	ext["(*sync.Mutex).Unlock"] = func(fr *frame, args []value) value { Sched.unlock(args[0].(*value)); return nil }
	ext["(*sync.Mutex).TryLock"] = func(fr *frame, args []value) value { return Sched.tryLock(args[0].(*value)) }
	ext["(*sync.RWMutex).Lock"] = ext["(*sync.Mutex).Lock"]
	ext["(*sync.RWMutex).Unlock"] = ext["(*sync.Mutex).Unlock"]
	ext["(*sync.RWMutex).RLock"] = func(fr *frame, args []value) value { Sched.rlock(args[0].(*value)); return nil }
	ext["(*sync.RWMutex).RUnlock"] = func(fr *frame, args []value) value { Sched.runlock(args[0].(*value)); return nil }
	ext["(*sync.WaitGroup).Add"] = func(fr *frame, args []value) value {
		Sched.point()
		w := Sched.wg(args[0].(*value))
		w.n += int(concInt(args[1], "WaitGroup.Add"))
		if w.n < 0 {
			panic(rtError("sync: negative WaitGroup counter"))
		}
		return nil
	}
	ext["(*sync.WaitGroup).Done"] = func(fr *frame, args []value) value {
		Sched.point()
		w := Sched.wg(args[0].(*value))
		w.n--
		if w.n < 0 {
			panic(rtError("sync: negative WaitGroup counter"))
		}
		return nil
	}
	ext["(*sync.WaitGroup).Wait"] = func(fr *frame, args []value) value {
		w := Sched.wg(args[0].(*value))
		Sched.waitUntil("WaitGroup.Wait", func() bool { return w.n == 0 })
		return nil
	}
	ext["(*sync.Once).Do"] = func(fr *frame, args []value) value {
		p := args[0].(*value)
		o := Sched.onces[p]
		if o == nil {
			o = &onceObj{}
			Sched.onces[p] = o
		}
		if o.done {
			return nil
		}
		if o.running {
			Sched.waitUntil("Once.Do", func() bool { return o.done })
			return nil
		}
		o.running = true
		defer func() { o.done = true; o.running = false }()
		call(fr.i, fr, 0, args[1], nil)
		return nil
	}
	ext["(*sync.Pool).Get"] = func(fr *frame, args []value) value {
		p := args[0].(*value)
		if l := poolFree[p]; len(l) > 0 {
			v := l[len(l)-1]
			poolFree[p] = l[:len(l)-1]
			return v
		}
		st := (*p).(structure)
		newFn := st[len(st)-1]
		switch f := newFn.(type) {
		case nil:
			return iface{}
		case *ssa.Function:
			if f == nil {
				return iface{}
			}
		case *closure:
			if f == nil {
				return iface{}
			}
		}
		return call(fr.i, fr, 0, newFn, nil)
	}
	ext["(*sync.Pool).Put"] = func(fr *frame, args []value) value {
		p := args[0].(*value)
		if len(poolFree[p]) < 4 {
			poolFree[p] = append(poolFree[p], args[1])
		}
		return nil
	}

	// ---- sync/atomic (sequentially consistent; each is a scheduling point)
	load := func(fr *frame, args []value) value {
		Sched.point()
		return *args[0].(*value)
	}
	store := func(fr *frame, args []value) value {
		Sched.point()
		*args[0].(*value) = args[1]
		return nil
	}
	swap := func(fr *frame, args []value) value {
		Sched.point()
		p := args[0].(*value)
		old := *p
		*p = args[1]
		return old
	}
	cas := func(fr *frame, args []value) value {
		Sched.point()
		p := args[0].(*value)
		if concBool(equalsV(nil, *p, args[1])) {
			*p = args[2]
			return true
		}
		return false
	}
	add := func(fr *frame, args []value) value {
		Sched.point()
		p := args[0].(*value)
		v := binop(token.ADD, nil, *p, args[1])
		*p = v
		return v
	}
	for _, t := range []string{"Int32", "Int64", "Uint32", "Uint64", "Uintptr", "Pointer"} {
		ext["sync/atomic.Load"+t] = load
		ext["sync/atomic.Store"+t] = store
		ext["sync/atomic.Swap"+t] = swap
		ext["sync/atomic.CompareAndSwap"+t] = cas
		if t != "Pointer" {
			ext["sync/atomic.Add"+t] = add
		}
	}
	// atomic.Value: field v holds the stored interface
	ext["(*sync/atomic.Value).Load"] = func(fr *frame, args []value) value {
		Sched.point()
		st := (*args[0].(*value)).(structure)
		return st[0]
	}
	ext["(*sync/atomic.Value).Store"] = func(fr *frame, args []value) value {
		Sched.point()
		st := (*args[0].(*value)).(structure)
		st[0] = args[1]
		return nil
	}
	// atomic.Pointer[T]: struct{ _ [0]*T; _ noCopy; v unsafe.Pointer } -> field 2 holds the *value
	ptrField := func(args []value) *value {
		st := (*args[0].(*value)).(structure)
		return &st[len(st)-1]
	}
	asPtr := func(v value) value {
		switch v := v.(type) {
		case unsafe.Pointer:
			return (*value)(v)
		case *value:
			return v
		}
		return (*value)(nil)
	}
	prefixIntrinsics["(*sync/atomic.Pointer).Load"] = func(fr *frame, args []value) value {
		Sched.point()
		return asPtr(*ptrField(args))
	}
	prefixIntrinsics["(*sync/atomic.Pointer).Store"] = func(fr *frame, args []value) value {
		Sched.point()
		*ptrField(args) = args[1]
		return nil
	}
	prefixIntrinsics["(*sync/atomic.Pointer).Swap"] = func(fr *frame, args []value) value {
		Sched.point()
		f := ptrField(args)
		old := asPtr(*f)
		*f = args[1]
		return old
	}
	prefixIntrinsics["(*sync/atomic.Pointer).CompareAndSwap"] = func(fr *frame, args []value) value {
		Sched.point()
		f := ptrField(args)
		if asPtr(*f).(*value) == args[1].(*value) {
			*f = args[2]
			return true
		}
		return false
	}

	// ---- runtime
	prefixIntrinsics["runtime.AddCleanup"] = func(fr *frame, args []value) value {
		Cleanups = append(Cleanups, cleanupRec{ptr: args[0], fn: args[1], arg: args[2]})
		return zeroResult(fr.fn)
	}
	ext["runtime.SetFinalizer"] = nop
	ext["runtime.KeepAlive"] = nop
	ext["runtime.Gosched"] = func(fr *frame, args []value) value { Sched.point(); return nil }
	ext["runtime/debug.Stack"] = func(fr *frame, args []value) value { return []value(nil) }
	ext["runtime/debug.PrintStack"] = nop
	prefixIntrinsics["iter.Pull"] = func(fr *frame, args []value) value { return iterPull(fr, args[0], fr.fn) }

	// ---- fmt / errors
	ext["fmt.Sprintf"] = func(fr *frame, args []value) value {
		return fmt.Sprintf(cstr(args[0]), hostArgs(fr.i, args[1].([]value))...)
	}
	ext["fmt.Sprint"] = func(fr *frame, args []value) value { return fmt.Sprint(hostArgs(fr.i, args[0].([]value))...) }
	ext["fmt.Sprintln"] = func(fr *frame, args []value) value { return fmt.Sprintln(hostArgs(fr.i, args[0].([]value))...) }
	ext["fmt.Println"] = func(fr *frame, args []value) value { return tuple{0, iface{}} }
	ext["fmt.Printf"] = func(fr *frame, args []value) value { return tuple{0, iface{}} }
	ext["fmt.Print"] = func(fr *frame, args []value) value { return tuple{0, iface{}} }
	ext["fmt.Fprintf"] = func(fr *frame, args []value) value { return tuple{0, iface{}} }
	ext["fmt.Fprintln"] = func(fr *frame, args []value) value { return tuple{0, iface{}} }
	ext["fmt.Fprint"] = func(fr *frame, args []value) value { return tuple{0, iface{}} }
	ext["fmt.Errorf"] = func(fr *frame, args []value) value {
		format := cstr(args[0])
		va := args[1].([]value)
		msg := fmt.Sprintf(strings.ReplaceAll(format, "%w", "%v"), hostArgs(fr.i, va)...)
		// find the operand of the first %w
		var wrapped value
		if strings.Contains(format, "%w") {
			k := 0
			for j := 0; j+1 < len(format); j++ {
				if format[j] != '%' {
					continue
				}
				if format[j+1] == '%' {
					j++
					continue
				}
				// skip flags/width
				e := j + 1
				for e < len(format) && strings.IndexByte("+-# 0123456789.", format[e]) >= 0 {
					e++
				}
				if e < len(format) && format[e] == 'w' && k < len(va) {
					wrapped = va[k]
					break
				}
				k++
				j = e
			}
		}
		if wi, ok := wrapped.(iface); ok && wi.t != nil {
			fmtPkg := fr.i.prog.ImportedPackage("fmt")
			wt := fmtPkg.Type("wrapError").Object().Type()
			var cell value = structure{msg, wi}
			return iface{t: types.NewPointer(wt), v: &cell}
		}
		return mkError(fr, msg)
	}
	ext["errors.Is"] = func(fr *frame, args []value) value {
		return errorsIs(fr, errIface(args[0]), errIface(args[1]), 0)
	}
	ext["errors.Unwrap"] = func(fr *frame, args []value) value {
		e := errIface(args[0])
		if e.t == nil {
			return iface{}
		}
		if m := findMethod(fr.i, e.t, "Unwrap"); m != nil && m.Signature.Results().Len() == 1 {
			if r, ok := call(fr.i, fr, 0, m, []value{e.v}).(iface); ok {
				return r
			}
		}
		return iface{}
	}
	ext["errors.Join"] = func(fr *frame, args []value) value {
		var first iface
		n := 0
		var msgs []string
		for _, e := range args[0].([]value) {
			ei := errIface(e)
			if ei.t != nil {
				if n == 0 {
					first = ei
				}
				n++
				msgs = append(msgs, fmt.Sprint(hostArg(fr.i, ei)))
			}
		}
		if n == 0 {
			return iface{}
		}
		if n == 1 {
			return first
		}
		return mkError(fr, strings.Join(msgs, "\n"))
	}

	// ---- strings / path / strconv pass-through on concrete arguments
	ext["strings.Join"] = func(fr *frame, args []value) value { return strings.Join(strs(args[0]), cstr(args[1])) }
	ext["strings.Split"] = func(fr *frame, args []value) value {
		return valsOfStrings(strings.Split(cstr(args[0]), cstr(args[1])))
	}
	ext["strings.HasPrefix"] = func(fr *frame, args []value) value {
		return fromTerm(seqHasPrefix(asByteSeq(args[0]), asByteSeq(args[1])), types.Bool)
	}
	ext["strings.HasSuffix"] = func(fr *frame, args []value) value { return strings.HasSuffix(cstr(args[0]), cstr(args[1])) }
	ext["strings.TrimPrefix"] = func(fr *frame, args []value) value { return strings.TrimPrefix(cstr(args[0]), cstr(args[1])) }
	ext["strings.TrimSuffix"] = func(fr *frame, args []value) value { return strings.TrimSuffix(cstr(args[0]), cstr(args[1])) }
	ext["strings.TrimLeft"] = func(fr *frame, args []value) value { return strings.TrimLeft(cstr(args[0]), cstr(args[1])) }
	ext["strings.TrimRight"] = func(fr *frame, args []value) value { return strings.TrimRight(cstr(args[0]), cstr(args[1])) }
	ext["strings.Trim"] = func(fr *frame, args []value) value { return strings.Trim(cstr(args[0]), cstr(args[1])) }
	ext["strings.TrimSpace"] = func(fr *frame, args []value) value { return strings.TrimSpace(cstr(args[0])) }
	ext["strings.Contains"] = func(fr *frame, args []value) value { return strings.Contains(cstr(args[0]), cstr(args[1])) }
	ext["strings.Index"] = func(fr *frame, args []value) value { return strings.Index(cstr(args[0]), cstr(args[1])) }
	ext["strings.LastIndex"] = func(fr *frame, args []value) value { return strings.LastIndex(cstr(args[0]), cstr(args[1])) }
	ext["strings.IndexByte"] = func(fr *frame, args []value) value { return strings.IndexByte(cstr(args[0]), args[1].(byte)) }
	ext["strings.Repeat"] = func(fr *frame, args []value) value { return strings.Repeat(cstr(args[0]), args[1].(int)) }
	ext["strings.ReplaceAll"] = func(fr *frame, args []value) value {
		return strings.ReplaceAll(cstr(args[0]), cstr(args[1]), cstr(args[2]))
	}
	ext["strings.Compare"] = func(fr *frame, args []value) value {
		return seqCompareInt(asByteSeq(args[0]), asByteSeq(args[1]))
	}
	ext["strings.ToLower"] = func(fr *frame, args []value) value { return strings.ToLower(cstr(args[0])) }
	ext["strings.ToUpper"] = func(fr *frame, args []value) value { return strings.ToUpper(cstr(args[0])) }
	ext["strings.Cut"] = func(fr *frame, args []value) value {
		a, b, ok := strings.Cut(cstr(args[0]), cstr(args[1]))
		return tuple{a, b, ok}
	}
	ext["strings.CutPrefix"] = func(fr *frame, args []value) value {
		a, ok := strings.CutPrefix(cstr(args[0]), cstr(args[1]))
		return tuple{a, ok}
	}
	ext["strings.CutSuffix"] = func(fr *frame, args []value) value {
		a, ok := strings.CutSuffix(cstr(args[0]), cstr(args[1]))
		return tuple{a, ok}
	}
	ext["path/filepath.Base"] = func(fr *frame, args []value) value { return filepath.Base(cstr(args[0])) }
	ext["path.Base"] = func(fr *frame, args []value) value { return path.Base(cstr(args[0])) }
	ext["path/filepath.Dir"] = func(fr *frame, args []value) value { return filepath.Dir(cstr(args[0])) }
	ext["path.Dir"] = func(fr *frame, args []value) value { return path.Dir(cstr(args[0])) }
	ext["path/filepath.Ext"] = func(fr *frame, args []value) value { return filepath.Ext(cstr(args[0])) }
	ext["path.Ext"] = func(fr *frame, args []value) value { return path.Ext(cstr(args[0])) }
	ext["path/filepath.Clean"] = func(fr *frame, args []value) value { return filepath.Clean(cstr(args[0])) }
	ext["path.Clean"] = func(fr *frame, args []value) value { return path.Clean(cstr(args[0])) }
	ext["path/filepath.IsAbs"] = func(fr *frame, args []value) value { return filepath.IsAbs(cstr(args[0])) }
	ext["path/filepath.Rel"] = func(fr *frame, args []value) value {
		r, err := filepath.Rel(cstr(args[0]), cstr(args[1]))
		if err != nil {
			return tuple{"", mkError(fr, err.Error())}
		}
		return tuple{r, iface{}}
	}
	ext["strconv.Itoa"] = func(fr *frame, args []value) value { return strconv.Itoa(int(concInt(args[0], "Itoa"))) }
	ext["strconv.Atoi"] = func(fr *frame, args []value) value {
		n, err := strconv.Atoi(cstr(args[0]))
		if err != nil {
			return tuple{0, mkError(fr, err.Error())}
		}
		return tuple{n, iface{}}
	}
	ext["strconv.FormatInt"] = func(fr *frame, args []value) value {
		return strconv.FormatInt(concInt(args[0], "FormatInt"), args[1].(int))
	}
	ext["strconv.FormatUint"] = func(fr *frame, args []value) value {
		return strconv.FormatUint(uint64(concInt(args[0], "FormatUint")), args[1].(int))
	}
	ext["strconv.ParseUint"] = func(fr *frame, args []value) value {
		n, err := strconv.ParseUint(cstr(args[0]), args[1].(int), args[2].(int))
		if err != nil {
			return tuple{uint64(0), mkError(fr, err.Error())}
		}
		return tuple{n, iface{}}
	}
	ext["strconv.ParseInt"] = func(fr *frame, args []value) value {
		n, err := strconv.ParseInt(cstr(args[0]), args[1].(int), args[2].(int))
		if err != nil {
			return tuple{int64(0), mkError(fr, err.Error())}
		}
		return tuple{n, iface{}}
	}

	// ---- bytes (non-forking, symbolic-aware)
	ext["bytes.Compare"] = func(fr *frame, args []value) value {
		return seqCompareInt(asByteSeq(args[0]), asByteSeq(args[1]))
	}
	ext["bytes.Equal"] = func(fr *frame, args []value) value {
		_, eq := seqCompare(asByteSeq(args[0]), asByteSeq(args[1]))
		return fromTerm(eq, types.Bool)
	}
	ext["bytes.HasPrefix"] = func(fr *frame, args []value) value {
		return fromTerm(seqHasPrefix(asByteSeq(args[0]), asByteSeq(args[1])), types.Bool)
	}
	ext["slices.Equal[[]byte,byte]"] = ext["bytes.Equal"]
	ext["slices.Compare[[]byte,byte]"] = ext["bytes.Compare"]
	ext["bytes.Clone"] = func(fr *frame, args []value) value {
		b := args[0].([]value)
		if b == nil {
			return []value(nil)
		}
		return append([]value{}, b...)
	}
	ext["slices.Clone[[]byte,byte]"] = ext["bytes.Clone"]
	ext["internal/bytealg.MakeNoZero"] = func(fr *frame, args []value) value {
		n := int(concInt(args[0], "MakeNoZero"))
		out := make([]value, n)
		for k := range out {
			out[k] = uint8(0)
		}
		return out
	}
	ext["internal/bytealg.IndexByteString"] = func(fr *frame, args []value) value {
		return strings.IndexByte(cstr(args[0]), args[1].(byte))
	}
	ext["internal/bytealg.CountString"] = func(fr *frame, args []value) value {
		return strings.Count(cstr(args[0]), string([]byte{args[1].(byte)}))
	}
	ext["internal/bytealg.IndexString"] = func(fr *frame, args []value) value {
		return strings.Index(cstr(args[0]), cstr(args[1]))
	}
	ext["internal/bytealg.IndexByte"] = func(fr *frame, args []value) value {
		b := args[0].([]value)
		for k := range b {
			if concBool(equalsV(nil, b[k], args[1])) {
				return k
			}
		}
		return -1
	}
	ext["internal/bytealg.Equal"] = ext["bytes.Equal"]
	ext["internal/bytealg.Compare"] = ext["bytes.Compare"]
	ext["internal/stringslite.HasPrefix"] = ext["strings.HasPrefix"]
	ext["internal/stringslite.HasSuffix"] = ext["strings.HasSuffix"]
	ext["internal/stringslite.Index"] = ext["strings.Index"]
	ext["internal/stringslite.IndexByte"] = ext["strings.IndexByte"]
	ext["internal/stringslite.TrimPrefix"] = ext["strings.TrimPrefix"]
	ext["internal/stringslite.TrimSuffix"] = ext["strings.TrimSuffix"]
	ext["internal/stringslite.Cut"] = ext["strings.Cut"]
	ext["(*strings.Builder).String"] = func(fr *frame, args []value) value {
		st := (*args[0].(*value)).(structure)
		return mkString(st[1].([]value))
	}
	ext["(*strings.Builder).copyCheck"] = nop
	ext["(*bytes.Buffer).String"] = func(fr *frame, args []value) value {
		p := args[0].(*value)
		if p == nil {
			return "<nil>"
		}
		st := (*p).(structure)
		buf := st[0].([]value)
		off := st[1].(int)
		return mkString(buf[off:])
	}
	ext["unicode/utf8.ValidString"] = func(fr *frame, args []value) value { return true }

	// maps.clone (runtime linkname)
	ext["maps.clone"] = func(fr *frame, args []value) value {
		a := args[0]
		if ifc, ok := a.(iface); ok {
			return iface{t: ifc.t, v: ifc.v.(*omap).clone()}
		}
		return a.(*omap).clone()
	}
	ext["os.Getenv"] = func(fr *frame, args []value) value { return "" }
	ext["os.LookupEnv"] = func(fr *frame, args []value) value { return tuple{"", false} }
	delete(ext, "time.Sleep")
	ext["time.Sleep"] = func(fr *frame, args []value) value {
		Sched.now += concInt(args[0], "Sleep")
		Sched.point()
		return nil
	}
}

func errorsIs(fr *frame, e, target iface, depth int) value {
	if depth > 20 {
		return false
	}
	if e.t == nil || target.t == nil {
		return e.t == nil && target.t == nil
	}
	if types.Identical(e.t, target.t) && types.Comparable(e.t) {
		if concBool(equalsV(e.t, e.v, target.v)) {
			return true
		}
	}
	if m := findMethod(fr.i, e.t, "Is"); m != nil && m.Signature.Params().Len() == 1 {
		if r, ok := call(fr.i, fr, 0, m, []value{e.v, target}).(bool); ok && r {
			return true
		}
	}
	if m := findMethod(fr.i, e.t, "Unwrap"); m != nil && m.Signature.Results().Len() == 1 {
		switch r := call(fr.i, fr, 0, m, []value{e.v}).(type) {
		case iface:
			return errorsIs(fr, r, target, depth+1)
		case []value:
			for _, x := range r {
				if errorsIs(fr, x.(iface), target, depth+1).(bool) {
					return true
				}
			}
		}
	}
	return false
}

var poolFree = map[*value][]value{}

type cleanupRec struct {
	ptr, fn, arg value
}

var Cleanups []cleanupRec

func init() {
	resetHooks = append(resetHooks, func() { Cleanups = nil; chanCounter = 0; poolFree = map[*value][]value{} })
}
