package interp

// Model of runtime.AddCleanup: a cleanup may run once its object is unreachable.
// verif.RunCleanups computes reachability over the interpreter heap from the roots
// (package globals, every live frame of every goroutine, pending cleanup arguments and
// functions, channel buffers are reached through their owners) and runs the cleanups of
// the unreachable objects. Objects referenced only by dead SSA temporaries of a live frame
// still count as reachable (no liveness analysis), which only delays cleanups.

import (
	"golang.org/x/tools/go/ssa"
)

type marker struct {
	seenPtr map[*value]bool
	seenMap map[*omap]bool
	seenCh  map[*chanObj]bool
	seenCl  map[*closure]bool
	seenSl  map[*value]bool // first cell of a slice backing array
}

func newMarker() *marker {
	return &marker{map[*value]bool{}, map[*omap]bool{}, map[*chanObj]bool{}, map[*closure]bool{}, map[*value]bool{}}
}

func (m *marker) mark(v value) {
	switch v := v.(type) {
	case *value:
		if v == nil || m.seenPtr[v] {
			return
		}
		m.seenPtr[v] = true
		m.mark(*v)
	case structure:
		for i := range v {
			m.mark(v[i])
		}
	case array:
		for i := range v {
			m.mark(v[i])
		}
	case tuple:
		for i := range v {
			m.mark(v[i])
		}
	case []value:
		if len(v) == 0 && cap(v) == 0 {
			return
		}
		full := v[:cap(v)]
		if len(full) > 0 {
			if m.seenSl[&full[0]] {
				return
			}
			m.seenSl[&full[0]] = true
		}
		for i := range full {
			// cells of a slice are addressable: a pointer to a cell keeps the cell's content alive
			m.seenPtr[&full[i]] = true
			m.mark(full[i])
		}
	case iface:
		m.mark(v.v)
	case *omap:
		if v == nil || m.seenMap[v] {
			return
		}
		m.seenMap[v] = true
		for i := range v.keys {
			if v.live[i] {
				m.mark(v.keys[i])
				m.mark(v.vals[i])
			}
		}
	case *chanObj:
		if v == nil || m.seenCh[v] {
			return
		}
		m.seenCh[v] = true
		for _, x := range v.buf {
			m.mark(x)
		}
		for _, w := range v.sendq {
			m.mark(w.val)
		}
	case *closure:
		if v == nil || m.seenCl[v] {
			return
		}
		m.seenCl[v] = true
		for _, e := range v.Env {
			m.mark(e)
		}
	case symstr:
	}
}


func runCleanups(fr *frame) {
	m := newMarker()
	i := fr.i
	for _, cell := range i.globals {
		m.mark(cell)
	}
	for _, g := range Sched.gs {
		if g.state == gDone {
			continue
		}
		for f := g.top; f != nil; f = f.caller {
			for _, v := range f.env {
				m.mark(v)
			}
			for k := range f.locals {
				m.mark(f.locals[k])
			}
			for d := f.defers; d != nil; d = d.tail {
				m.mark(d.fn)
				for _, a := range d.args {
					m.mark(a)
				}
			}
		}
	}
	// cleanup functions and their arguments are kept alive by the runtime, but not the object itself
	for _, c := range Cleanups {
		m.mark(c.fn)
		m.mark(c.arg)
	}
	var keep []cleanupRec
	var run []cleanupRec
	for _, c := range Cleanups {
		p, ok := c.ptr.(*value)
		if ok && p != nil && !m.seenPtr[p] {
			run = append(run, c)
		} else {
			keep = append(keep, c)
		}
	}
	Cleanups = keep
	for _, c := range run {
		call(i, fr, 0, c.fn, []value{c.arg})
	}
}

var _ ssa.Value
