// Copyright 2013 The Go Authors. All rights reserved.
// Use of this source code is governed by a BSD-style
// license that can be found in the LICENSE file.

// Package ssa/interp defines an interpreter for the SSA
// representation of Go programs.
//
// This interpreter is provided as an adjunct for testing the SSA
// construction algorithm.  Its purpose is to provide a minimal
// metacircular implementation of the dynamic semantics of each SSA
// instruction.  It is not, and will never be, a production-quality Go
// interpreter.
//
// The following is a partial list of Go features that are currently
// unsupported or incomplete in the interpreter.
//
// * Unsafe operations, including all uses of unsafe.Pointer, are
// impossible to support given the "boxed" value representation we
// have chosen.
//
// * The reflect package is only partially implemented.
//
// * The "testing" package is no longer supported because it
// depends on low-level details that change too often.
//
// * "sync/atomic" operations are not atomic due to the "boxed" value
// representation: it is not possible to read, modify and write an
// interface value atomically. As a consequence, Mutexes are currently
// broken.
//
// * recover is only partially implemented.  Also, the interpreter
// makes no attempt to distinguish target panics from interpreter
// crashes.
//
// * the sizes of the int, uint and uintptr types in the target
// program are assumed to be the same as those of the interpreter
// itself.
//
// * all values occupy space, even those of types defined by the spec
// to have zero size, e.g. struct{}.  This can cause asymptotic
// performance degradation.
//
// * os.Exit is implemented using panic, causing deferred functions to
// run.
package interp // import "golang.org/x/tools/go/ssa/interp"

import (
	"strings"
	"fmt"
	"go/token"
	"go/types"
	"log"
	"os"
	"runtime"
	"slices"
	_ "unsafe"

	"golang.org/x/tools/go/ssa"
	
)

type continuation int

const (
	kNext continuation = iota
	kReturn
	kJump
)

// Mode is a bitmask of options affecting the interpreter.
type Mode uint

const (
	DisableRecover Mode = 1 << iota // Disable recover() in target programs; show interpreter crash instead.
	EnableTracing                   // Print a trace of all instructions as they are interpreted.
)

type methodSet map[string]*ssa.Function

// State shared between all interpreted goroutines.
type interpreter struct {
	osArgs             []value                // the value of os.Args
	prog               *ssa.Program           // the SSA program
	globals            map[*ssa.Global]*value // addresses of global variables (immutable)
	mode               Mode                   // interpreter options
	built              map[*ssa.Package]bool  // packages whose function bodies have been built
	funcsRun           map[*ssa.Function]bool // repository functions executed (evidence)
	initDone           map[*ssa.Package]bool
	runtimeErrorString types.Type             // the runtime.errorString type
	sizes              types.Sizes            // the effective type-sizing function
	goroutines         int32                  // atomically updated
}

type deferred struct {
	fn    value
	args  []value
	instr *ssa.Defer
	tail  *deferred
}

type frame struct {
	i                *interpreter
	caller           *frame
	fn               *ssa.Function
	block, prevBlock *ssa.BasicBlock
	env              map[ssa.Value]value // dynamic values of SSA variables
	locals           []value
	defers           *deferred
	result           value
	panicking        bool
	panic            interface{}
	phitemps         []value // temporaries for parallel phi assignment
	cur              ssa.Instruction
}

// lastPanicStack is the target call stack at the point where the innermost panic was first seen.
var lastPanicStack string

func targetStack(fr *frame) string {
	var sb strings.Builder
	for f, n := fr, 0; f != nil && n < 12; f, n = f.caller, n+1 {
		pos := ""
		if f.cur != nil && f.cur.Pos().IsValid() {
			p := f.i.prog.Fset.Position(f.cur.Pos())
			pos = fmt.Sprintf(" (%s:%d)", p.Filename[strings.LastIndex(p.Filename, "/")+1:], p.Line)
		}
		fmt.Fprintf(&sb, " <- %s%s", f.fn.String(), pos)
	}
	return sb.String()
}

func (fr *frame) get(key ssa.Value) value {
	switch key := key.(type) {
	case nil:
		// Hack; simplifies handling of optional attributes
		// such as ssa.Slice.{Low,High}.
		return nil
	case *ssa.Function, *ssa.Builtin:
		return key
	case *ssa.Const:
		return constValue(key)
	case *ssa.Global:
		if r, ok := fr.i.globals[key]; ok {
			return r
		}
	}
	if r, ok := fr.env[key]; ok {
		return r
	}
	panic(fmt.Sprintf("get: no value for %T: %v", key, key.Name()))
}

// runDefer runs a deferred call d.
// It always returns normally, but may set or clear fr.panic.
func (fr *frame) runDefer(d *deferred) {
	if fr.i.mode&EnableTracing != 0 {
		fmt.Fprintf(os.Stderr, "%s: invoking deferred function call\n",
			fr.i.prog.Fset.Position(d.instr.Pos()))
	}
	var ok bool
	defer func() {
		if !ok {
			// Deferred call created a new state of panic.
			r := recover()
			if _, isEng := r.(enginePanic); isEng {
				panic(r)
			}
			fr.panicking = true
			fr.panic = r
		}
	}()
	call(fr.i, fr, d.instr.Pos(), d.fn, d.args)
	ok = true
}

// runDefers executes fr's deferred function calls in LIFO order.
//
// On entry, fr.panicking indicates a state of panic; if
// true, fr.panic contains the panic value.
//
// On completion, if a deferred call started a panic, or if no
// deferred call recovered from a previous state of panic, then
// runDefers itself panics after the last deferred call has run.
//
// If there was no initial state of panic, or it was recovered from,
// runDefers returns normally.
func (fr *frame) runDefers() {
	for d := fr.defers; d != nil; d = d.tail {
		fr.runDefer(d)
	}
	fr.defers = nil
	if fr.panicking {
		panic(fr.panic) // new panic, or still panicking
	}
}

// lookupMethod returns the method set for type typ, which may be one
// of the interpreter's fake types.
func lookupMethod(i *interpreter, typ types.Type, meth *types.Func) *ssa.Function {
	return i.prog.LookupMethod(typ, meth.Pkg(), meth.Name())
}

// visitInstr interprets a single ssa.Instruction within the activation
// record frame.  It returns a continuation value indicating where to
// read the next instruction from.
func visitInstr(fr *frame, instr ssa.Instruction) continuation {
	switch instr := instr.(type) {
	case *ssa.DebugRef:
		// no-op

	case *ssa.UnOp:
		fr.env[instr] = unop(instr, fr.get(instr.X))

	case *ssa.BinOp:
		fr.env[instr] = binop(instr.Op, instr.X.Type(), fr.get(instr.X), fr.get(instr.Y))

	case *ssa.Call:
		fn, args := prepareCall(fr, &instr.Call)
		fr.env[instr] = call(fr.i, fr, instr.Pos(), fn, args)

	case *ssa.ChangeInterface:
		fr.env[instr] = fr.get(instr.X)

	case *ssa.ChangeType:
		fr.env[instr] = fr.get(instr.X) // (can't fail)

	case *ssa.Convert:
		fr.env[instr] = conv(instr.Type(), instr.X.Type(), fr.get(instr.X))

	case *ssa.SliceToArrayPointer:
		fr.env[instr] = sliceToArrayPointer(instr.Type(), instr.X.Type(), fr.get(instr.X))

	case *ssa.MakeInterface:
		fr.env[instr] = iface{t: instr.X.Type(), v: fr.get(instr.X)}

	case *ssa.Extract:
		fr.env[instr] = fr.get(instr.Tuple).(tuple)[instr.Index]

	case *ssa.Slice:
		fr.env[instr] = slice(fr.get(instr.X), fr.get(instr.Low), fr.get(instr.High), fr.get(instr.Max))

	case *ssa.Return:
		switch len(instr.Results) {
		case 0:
		case 1:
			fr.result = fr.get(instr.Results[0])
		default:
			var res []value
			for _, r := range instr.Results {
				res = append(res, fr.get(r))
			}
			fr.result = tuple(res)
		}
		fr.block = nil
		return kReturn

	case *ssa.RunDefers:
		fr.runDefers()

	case *ssa.Panic:
		panic(targetPanic{fr.get(instr.X)})

	case *ssa.Send:
		Sched.send(fr.get(instr.Chan).(*chanObj), fr.get(instr.X))

	case *ssa.Store:
		if sp, ok := fr.get(instr.Addr).(symPtr); ok {
			symIndexWrite(sp, fr.get(instr.Val))
			break
		}
		store(mustDeref(instr.Addr.Type()), fr.get(instr.Addr).(*value), fr.get(instr.Val))

	case *ssa.If:
		succ := 1
		c := fr.get(instr.Cond)
		if sc, ok := c.(sym); ok {
			c = CurPath.DecideBool(sc.t)
		}
		if c.(bool) {
			succ = 0
		}
		fr.prevBlock, fr.block = fr.block, fr.block.Succs[succ]
		return kJump

	case *ssa.Jump:
		fr.prevBlock, fr.block = fr.block, fr.block.Succs[0]
		return kJump

	case *ssa.Defer:
		fn, args := prepareCall(fr, &instr.Call)
		defers := &fr.defers
		if into := fr.get(instr.DeferStack); into != nil {
			defers = into.(**deferred)
		}
		*defers = &deferred{
			fn:    fn,
			args:  args,
			instr: instr,
			tail:  *defers,
		}

	case *ssa.Go:
		fn, args := prepareCall(fr, &instr.Call)
		i := fr.i
		pos := instr.Pos()
		Sched.spawn(fr.fn.String(), func() {
			call(i, nil, pos, fn, args)
		})
		Sched.point()

	case *ssa.MakeChan:
		fr.env[instr] = newChan(int(concInt(fr.get(instr.Size), "chan size")), instr.Type().Underlying().(*types.Chan).Elem())

	case *ssa.Alloc:
		var addr *value
		if instr.Heap {
			// new
			addr = new(value)
			fr.env[instr] = addr
		} else {
			// local
			addr = fr.env[instr].(*value)
		}
		*addr = zero(mustDeref(instr.Type()))

	case *ssa.MakeSlice:
		ln := concInt(fr.get(instr.Len), "make len")
		cp := concInt(fr.get(instr.Cap), "make cap")
		if ln < 0 || cp < ln {
			panic(rtError("makeslice: len out of range"))
		}
		if cp > 1<<24 {
			// treated as a target failure candidate: the native replay decides what really happens
			panic(rtError(fmt.Sprintf("makeslice: allocation of %d elements (gosym treats more than 2^24 as a failure)", cp)))
		}
		slice := make([]value, cp)
		tElt := instr.Type().Underlying().(*types.Slice).Elem()
		for i := range slice {
			slice[i] = zero(tElt)
		}
		fr.env[instr] = slice[:ln]

	case *ssa.MakeMap:
		var reserve int64
		if instr.Reserve != nil {
			reserve = concInt(fr.get(instr.Reserve), "map reserve")
		}
		if !fitsInt(reserve, fr.i.sizes) {
			panic(fmt.Sprintf("ssa.MakeMap.Reserve value %d does not fit in int", reserve))
		}
		fr.env[instr] = makeMap(instr.Type().Underlying().(*types.Map).Key(), reserve)

	case *ssa.Range:
		fr.env[instr] = rangeIter(fr.get(instr.X), instr.X.Type())

	case *ssa.Next:
		fr.env[instr] = fr.get(instr.Iter).(iter).next()

	case *ssa.FieldAddr:
		px := fr.get(instr.X).(*value)
		if px == nil {
			panic(rtError("invalid memory address or nil pointer dereference"))
		}
		fr.env[instr] = &(*px).(structure)[instr.Field]

	case *ssa.Field:
		fr.env[instr] = fr.get(instr.X).(structure)[instr.Field]

	case *ssa.IndexAddr:
		x := fr.get(instr.X)
		idx := fr.get(instr.Index)
		if si, ok := idx.(sym); ok {
			switch x := x.(type) {
			case []value:
				fr.env[instr] = symPtr{x, si}
			case *value:
				fr.env[instr] = symPtr{(*x).(array), si}
			}
			break
		}
		switch x := x.(type) {
		case []value:
			ii := asInt64(idx)
			if ii < 0 || ii >= int64(len(x)) {
				panic(rtError(fmt.Sprintf("index out of range [%d] with length %d", ii, len(x))))
			}
			fr.env[instr] = &x[ii]
		case *value: // *array
			if x == nil {
				panic(rtError("invalid memory address or nil pointer dereference"))
			}
			a := (*x).(array)
			ii := asInt64(idx)
			if ii < 0 || ii >= int64(len(a)) {
				panic(rtError(fmt.Sprintf("index out of range [%d] with length %d", ii, len(a))))
			}
			fr.env[instr] = &a[ii]
		default:
			panic(fmt.Sprintf("unexpected x type in IndexAddr: %T", x))
		}

	case *ssa.Index:
		x := fr.get(instr.X)
		idx := fr.get(instr.Index)

		fr.env[instr] = indexValue(x, idx)

	case *ssa.Lookup:
		fr.env[instr] = lookup(instr, fr.get(instr.X), fr.get(instr.Index))

	case *ssa.MapUpdate:
		m := fr.get(instr.Map)
		key := fr.get(instr.Key)
		v := fr.get(instr.Value)
		m.(*omap).insert(key, v)

	case *ssa.TypeAssert:
		fr.env[instr] = typeAssert(fr.i, instr, fr.get(instr.X).(iface))

	case *ssa.MakeClosure:
		var bindings []value
		for _, binding := range instr.Bindings {
			bindings = append(bindings, fr.get(binding))
		}
		fr.env[instr] = &closure{instr.Fn.(*ssa.Function), bindings}

	case *ssa.Phi:
		log.Fatal("unreachable") // phis are processed at block entry

	case *ssa.Select:
		var cases []selCase
		for _, state := range instr.States {
			c := selCase{send: state.Dir != types.RecvOnly, ch: fr.get(state.Chan).(*chanObj)}
			if state.Send != nil {
				c.val = fr.get(state.Send)
			}
			cases = append(cases, c)
		}
		chosen, recv, recvOk := Sched.selectOp(cases, instr.Blocking)
		r := tuple{chosen, recvOk}
		for i, st := range instr.States {
			if st.Dir == types.RecvOnly {
				var v value
				if i == chosen && recvOk {
					v = recv
				} else {
					v = zero(st.Chan.Type().Underlying().(*types.Chan).Elem())
				}
				r = append(r, v)
			}
		}
		fr.env[instr] = r

	default:
		panic(fmt.Sprintf("unexpected instruction: %T", instr))
	}

	// if val, ok := instr.(ssa.Value); ok {
	// 	fmt.Println(toString(fr.env[val])) // debugging
	// }

	return kNext
}

// prepareCall determines the function value and argument values for a
// function call in a Call, Go or Defer instruction, performing
// interface method lookup if needed.
func prepareCall(fr *frame, call *ssa.CallCommon) (fn value, args []value) {
	v := fr.get(call.Value)
	if call.Method == nil {
		// Function call.
		fn = v
	} else {
		// Interface method invocation.
		recv := v.(iface)
		if recv.t == nil {
			panic("method invoked on nil interface")
		}
		if f := lookupMethod(fr.i, recv.t, call.Method); f == nil {
			// Unreachable in well-typed programs.
			panic(fmt.Sprintf("method set for dynamic type %v does not contain %s", recv.t, call.Method))
		} else {
			fn = f
		}
		args = append(args, recv.v)
	}
	for _, arg := range call.Args {
		args = append(args, fr.get(arg))
	}
	return
}

// call interprets a call to a function (function, builtin or closure)
// fn with arguments args, returning its result.
// callpos is the position of the callsite.
func call(i *interpreter, caller *frame, callpos token.Pos, fn value, args []value) value {
	switch fn := fn.(type) {
	case *ssa.Function:
		if fn == nil {
			panic(rtError("invalid memory address or nil pointer dereference (call of nil func)"))
		}
		return callSSA(i, caller, callpos, fn, args, nil)
	case *closure:
		return callSSA(i, caller, callpos, fn.Fn, args, fn.Env)
	case *ssa.Builtin:
		return callBuiltin(caller, callpos, fn, args)
	case *hostFn:
		return fn.f(caller, args)
	}
	panic(fmt.Sprintf("cannot call %T", fn))
}

func loc(fset *token.FileSet, pos token.Pos) string {
	if pos == token.NoPos {
		return ""
	}
	return " at " + fset.Position(pos).String()
}

// callSSA interprets a call to function fn with arguments args,
// and lexical environment env, returning its result.
// callpos is the position of the callsite.
func callSSA(i *interpreter, caller *frame, callpos token.Pos, fn *ssa.Function, args []value, env []value) value {
	if i.mode&EnableTracing != 0 {
		fset := fn.Prog.Fset
		// TODO(adonovan): fix: loc() lies for external functions.
		fmt.Fprintf(os.Stderr, "Entering %s%s.\n", fn, loc(fset, fn.Pos()))
		suffix := ""
		if caller != nil {
			suffix = ", resuming " + caller.fn.String() + loc(fset, callpos)
		}
		defer fmt.Fprintf(os.Stderr, "Leaving %s%s.\n", fn, suffix)
	}
	fr := &frame{
		i:      i,
		caller: caller, // for panic/recover
		fn:     fn,
	}
	if fn.Parent() == nil {
		if r, handled := callIntrinsic(i, fr, fn, args); handled {
			return r
		}
	}
	return runSSAEnv(fr, args, env)
}

// runSSA interprets the body of fr.fn (used by intrinsic wrappers that fall back to the real code).
func runSSA(fr *frame, args []value) value { return runSSAEnv(fr, args, nil) }

func runSSAEnv(fr *frame, args []value, env []value) value {
	i, fn := fr.i, fr.fn
	// innermost frame of the running goroutine (GC-root bookkeeping; after a panic unwinds
	// it may briefly point at a dead inner frame, whose caller chain is still a superset)
	g := Sched.cur
	var prevTop *frame
	if g != nil {
		prevTop = g.top
		g.top = fr
	}
	if fn.Blocks == nil {
		panic(unsupported("no code for function: " + fn.String()))
	}
	if fn.Pkg != nil && strings.HasPrefix(fn.Pkg.Pkg.Path(), "reduction.dev/reduction") {
		i.funcsRun[fn] = true
	} else if fn.Pkg == nil {
		if o := fn.Origin(); o != nil && o.Pkg != nil && strings.HasPrefix(o.Pkg.Pkg.Path(), "reduction.dev/reduction") {
			i.funcsRun[fn] = true
		} else if fn.Signature.Recv() != nil && strings.HasPrefix(fnPkgPath(fn), "reduction.dev/reduction") && fn.Synthetic == "" {
			i.funcsRun[fn] = true
		}
	}

	// generic function body?
	if fn.TypeParams().Len() > 0 && len(fn.TypeArgs()) == 0 {
		panic("interp requires ssa.BuilderMode to include InstantiateGenerics to execute generics")
	}

	fr.env = make(map[ssa.Value]value, envSizeHint(fn))
	fr.block = fn.Blocks[0]
	fr.locals = make([]value, len(fn.Locals))
	for i, l := range fn.Locals {
		fr.locals[i] = zero(mustDeref(l.Type()))
		fr.env[l] = &fr.locals[i]
	}
	for i, p := range fn.Params {
		fr.env[p] = args[i]
	}
	for i, fv := range fn.FreeVars {
		fr.env[fv] = env[i]
	}
	for fr.block != nil {
		runFrame(fr)
	}
	// Destroy the locals to avoid accidental use after return.
	for i := range fn.Locals {
		fr.locals[i] = bad{}
	}
	if g != nil {
		g.top = prevTop
	}
	return fr.result
}

// runFrame executes SSA instructions starting at fr.block and
// continuing until a return, a panic, or a recovered panic.
//
// After a panic, runFrame panics.
//
// After a normal return, fr.result contains the result of the call
// and fr.block is nil.
//
// A recovered panic in a function without named return parameters
// (NRPs) becomes a normal return of the zero value of the function's
// result type.
//
// After a recovered panic in a function with NRPs, fr.result is
// undefined and fr.block contains the block at which to resume
// control.
func runFrame(fr *frame) {
	defer func() {
		if fr.block == nil {
			return // normal return
		}
		if fr.i.mode&DisableRecover != 0 {
			return // let interpreter crash
		}
		r := recover()
		if _, isEng := r.(enginePanic); isEng {
			if _, isU := r.(unsupported); isU && unsupStack == "" {
				unsupStack = targetStack(fr)
			}
			panic(r)
		}
		if re, isRT := r.(runtime.Error); isRT {
			r = classifyHostPanic(re)
			if _, isEng := r.(enginePanic); isEng {
				lastPanicStack = targetStack(fr)
				panic(r)
			}
		}
		if lastPanicStack == "" {
			lastPanicStack = targetStack(fr)
		}
		fr.panicking = true
		fr.panic = r
		if fr.i.mode&EnableTracing != 0 {
			fmt.Fprintf(os.Stderr, "Panicking: %T %v.\n", fr.panic, fr.panic)
		}
		fr.runDefers()
		fr.block = fr.fn.Recover
	}()

	for {
		if fr.i.mode&EnableTracing != 0 {
			fmt.Fprintf(os.Stderr, ".%s:\n", fr.block)
		}

		nonPhis := executePhis(fr)
		for _, instr := range nonPhis {
			if fr.i.mode&EnableTracing != 0 {
				if v, ok := instr.(ssa.Value); ok {
					fmt.Fprintln(os.Stderr, "\t", v.Name(), "=", instr)
				} else {
					fmt.Fprintln(os.Stderr, "\t", instr)
				}
			}
			if p := CurPath; p != nil {
				p.Steps++
				if p.MaxSteps > 0 && p.Steps > p.MaxSteps {
					panic(budgetExceeded{fmt.Sprintf("more than %d interpreter steps on one path", p.MaxSteps)})
				}
			}
			fr.cur = instr
			if visitInstr(fr, instr) == kReturn {
				return
			}
			// Inv: kNext (continue) or kJump (last instr)
		}
	}
}

// executePhis executes the phi-nodes at the start of the current
// block and returns the non-phi instructions.
func executePhis(fr *frame) []ssa.Instruction {
	firstNonPhi := -1
	for i, instr := range fr.block.Instrs {
		if _, ok := instr.(*ssa.Phi); !ok {
			firstNonPhi = i
			break
		}
	}
	// Inv: 0 <= firstNonPhi; every block contains a non-phi.

	nonPhis := fr.block.Instrs[firstNonPhi:]
	if firstNonPhi > 0 {
		phis := fr.block.Instrs[:firstNonPhi]
		// Execute parallel assignment of phis.
		//
		// See "the swap problem" in Briggs et al's "Practical Improvements
		// to the Construction and Destruction of SSA Form" for discussion.
		predIndex := slices.Index(fr.block.Preds, fr.prevBlock)
		fr.phitemps = fr.phitemps[:0]
		for _, phi := range phis {
			phi := phi.(*ssa.Phi)
			if fr.i.mode&EnableTracing != 0 {
				fmt.Fprintln(os.Stderr, "\t", phi.Name(), "=", phi)
			}
			fr.phitemps = append(fr.phitemps, fr.get(phi.Edges[predIndex]))
		}
		for i, phi := range phis {
			fr.env[phi.(*ssa.Phi)] = fr.phitemps[i]
		}
	}
	return nonPhis
}

// doRecover implements the recover() built-in.
func doRecover(caller *frame) value {
	// recover() must be exactly one level beneath the deferred
	// function (two levels beneath the panicking function) to
	// have any effect.  Thus we ignore both "defer recover()" and
	// "defer f() -> g() -> recover()".
	if caller.i.mode&DisableRecover == 0 &&
		caller != nil && !caller.panicking &&
		caller.caller != nil && caller.caller.panicking {
		caller.caller.panicking = false
		p := caller.caller.panic
		caller.caller.panic = nil

		// TODO(adonovan): support runtime.Goexit.
		switch p := p.(type) {
		case targetPanic:
			// The target program explicitly called panic().
			return p.v
		case runtime.Error:
			// The interpreter encountered a runtime error.
			return iface{caller.i.runtimeErrorString, p.Error()}
		case string:
			// The interpreter explicitly called panic().
			return iface{caller.i.runtimeErrorString, p}
		case rtError:
			// a run-time error of the target program (nil dereference, index out of range, ...)
			return iface{caller.i.runtimeErrorString, p.Error()}
		default:
			panic(fmt.Sprintf("unexpected panic type %T in target call to recover()", p))
		}
	}
	return iface{}
}

// InitAllow decides which packages' init functions run.
var InitAllow func(path string) bool

var StubPkgs = map[string]bool{}

func fnPkgPath(fn *ssa.Function) string {
	if fn.Pkg != nil { return fn.Pkg.Pkg.Path() }
	if recv := fn.Signature.Recv(); recv != nil {
		t := recv.Type()
		if p, ok := t.(*types.Pointer); ok { t = p.Elem() }
		if n, ok := t.(*types.Named); ok && n.Obj().Pkg() != nil { return n.Obj().Pkg().Path() }
	}
	return ""
}

func zeroResult(fn *ssa.Function) value {
	res := fn.Signature.Results()
	switch res.Len() {
	case 0:
		return nil
	case 1:
		return zero(res.At(0).Type())
	}
	t := make(tuple, res.Len())
	for i := range t { t[i] = zero(res.At(i).Type()) }
	return t
}


type hostFn struct{ f func(fr *frame, args []value) value }

// iterPull implements iter.Pull with a coroutine on the deterministic scheduler.
func iterPull(fr *frame, seq value, fn *ssa.Function) value {
	elemT := fn.Signature.Results().At(0).Type().(*types.Signature).Results().At(0).Type()
	i := fr.i
	var co *gor
	var cur value
	var have, done, stopping bool
	s := Sched
	yield := &hostFn{f: func(_ *frame, a []value) value {
		cur, have = a[0], true
		// hand the baton back to the resumer and park
		r := co.resumer
		co.resumer = nil
		co.state = gParked
		r.state = gRunning
		s.handTo(r)
		s.park(co)
		return !stopping
	}}
	resume := func() {
		me := s.cur
		co.resumer = me
		me.state = gWaitCoro
		me.what = "iter.Pull coroutine"
		s.handTo(co)
		s.park(me)
	}
	next := &hostFn{f: func(_ *frame, _ []value) value {
		if done {
			return tuple{zero(elemT), false}
		}
		if co == nil {
			co = s.spawn("iter.Pull", func() {
				call(i, nil, 0, seq, []value{yield})
				done = true
			})
			co.coro = true
			co.state = gParked
		}
		have = false
		resume()
		if !have {
			done = true
			return tuple{zero(elemT), false}
		}
		return tuple{cur, true}
	}}
	stop := &hostFn{f: func(_ *frame, _ []value) value {
		if done {
			return nil
		}
		if co == nil {
			done = true
			return nil
		}
		stopping = true
		have = false
		resume()
		done = true
		return nil
	}}
	return tuple{next, stop}
}

var envHints = map[*ssa.Function]int{}

// envSizeHint is the number of SSA values a frame of fn will hold.
func envSizeHint(fn *ssa.Function) int {
	if n, ok := envHints[fn]; ok {
		return n
	}
	n := len(fn.Params) + len(fn.FreeVars) + len(fn.Locals)
	for _, b := range fn.Blocks {
		for _, in := range b.Instrs {
			if _, ok := in.(ssa.Value); ok {
				n++
			}
		}
	}
	envHints[fn] = n
	return n
}
