package interp

// encoding/binary.Read/Write/Append use reflection beyond their fast paths; modelled
// here for the fixed-size integer, bool and byte-slice cases the repository uses.

import (
	"fmt"
	"go/types"
	"strings"
)

func orderIsBig(v value) bool {
	ifc, ok := v.(iface)
	if !ok || ifc.t == nil {
		panic(unsupported("binary: nil byte order"))
	}
	s := ifc.t.String()
	switch {
	case strings.Contains(s, "bigEndian"):
		return true
	case strings.Contains(s, "littleEndian"):
		return false
	}
	panic(unsupported("binary: byte order " + s))
}

// scalarBytes returns the encoded bytes of a fixed-size scalar.
func scalarBytes(v value, big bool) []value {
	k := kindOfValue(v)
	if k == types.Invalid {
		panic(unsupported(fmt.Sprintf("binary: value of type %T", v)))
	}
	s := toSym(v)
	w := s.t.w
	if w == 0 { // bool
		return []value{fromTerm(tIte(s.t, tConst(8, 1), tConst(8, 0)), types.Uint8)}
	}
	n := w / 8
	out := make([]value, n)
	for i := 0; i < n; i++ {
		b := fromTerm(tExtract(8*i+7, 8*i, s.t), types.Uint8)
		if big {
			out[n-1-i] = b
		} else {
			out[i] = b
		}
	}
	return out
}

func scalarFromBytes(bs []value, k types.BasicKind, big bool) value {
	w, _ := kindInfo(k)
	if w == 0 {
		return fromTerm(tNot(tCmp("=", byteTerm(bs[0]), tConst(8, 0))), types.Bool)
	}
	n := w / 8
	var t *term
	for i := 0; i < n; i++ {
		var b *term
		if big {
			b = byteTerm(bs[i])
		} else {
			b = byteTerm(bs[n-1-i])
		}
		if t == nil {
			t = b
		} else {
			t = tConcat(t, b)
		}
	}
	return fromTerm(t, k)
}

func sizeOfKind(k types.BasicKind) int {
	w, _ := kindInfo(k)
	if w == 0 {
		return 1
	}
	return w / 8
}

func encodeData(data value, big bool) []value {
	if ifc, ok := data.(iface); ok {
		data = ifc.v
	}
	switch d := data.(type) {
	case *value:
		return encodeData(*d, big)
	case []value:
		var out []value
		for _, e := range d {
			out = append(out, scalarBytes(e, big)...)
		}
		return out
	case array:
		return encodeData([]value(d), big)
	default:
		return scalarBytes(d, big)
	}
}

func init() {
	ext := externals
	ext["encoding/binary.Read"] = func(fr *frame, args []value) value {
		big := orderIsBig(args[1])
		data := args[2].(iface)
		readFull := fr.i.prog.ImportedPackage("io").Func("ReadFull")
		read := func(n int) ([]value, value) {
			buf := make([]value, n)
			for i := range buf {
				buf[i] = uint8(0)
			}
			r := call(fr.i, fr, 0, readFull, []value{args[0], buf}).(tuple)
			if e := r[1].(iface); e.t != nil {
				return nil, e
			}
			return buf, nil
		}
		fill := func(dst []value) value {
			if len(dst) == 0 {
				return iface{}
			}
			k := kindOfValue(dst[0])
			if k == types.Invalid {
				panic(unsupported("binary.Read into slice of non-scalars"))
			}
			sz := sizeOfKind(k)
			buf, err := read(sz * len(dst))
			if err != nil {
				return err
			}
			for i := range dst {
				dst[i] = scalarFromBytes(buf[i*sz:(i+1)*sz], k, big)
			}
			return iface{}
		}
		switch d := data.v.(type) {
		case *value:
			switch cur := (*d).(type) {
			case []value:
				return fill(cur)
			case array:
				return fill([]value(cur))
			default:
				k := kindOfValue(cur)
				if k == types.Invalid {
					panic(unsupported(fmt.Sprintf("binary.Read into %T", cur)))
				}
				buf, err := read(sizeOfKind(k))
				if err != nil {
					return err
				}
				*d = scalarFromBytes(buf, k, big)
				return iface{}
			}
		case []value:
			return fill(d)
		}
		panic(unsupported(fmt.Sprintf("binary.Read into %T", data.v)))
	}
	ext["encoding/binary.Append"] = func(fr *frame, args []value) value {
		big := orderIsBig(args[1])
		buf, _ := args[0].([]value)
		return tuple{append(buf, encodeData(args[2], big)...), iface{}}
	}
	ext["encoding/binary.Write"] = func(fr *frame, args []value) value {
		big := orderIsBig(args[1])
		bs := encodeData(args[2], big)
		w := args[0].(iface)
		m := findMethod(fr.i, w.t, "Write")
		r := call(fr.i, fr, 0, m, []value{w.v, bs}).(tuple)
		return r[1]
	}
	ext["encoding/binary.Size"] = func(fr *frame, args []value) value {
		return len(encodeData(args[0], true))
	}
}
