package interp

// Path manager: one Path = one execution of a harness under a vector of
// decisions. Fresh decisions consult the solver for feasibility and leave the
// untaken feasible alternatives as pending prefixes for later runs.

import (
	"fmt"
	"go/types"
	"sort"
	"strings"
)

// InputRec is one verif.* input call, in call order (the replay vector).
type InputRec struct {
	Name  string `json:"name"`
	Kind  string `json:"kind"` // "int" "i64" "u64" "u32" "u16" "byte" "bool" "choose" "range" "crash" "sched"
	Shape bool   `json:"shape,omitempty"`
	Val   int64  `json:"val"` // concrete value for shape inputs; model value for solver inputs (filled on cex)
	t     *term
}

// Obligation is one proof obligation met on a path.
type Obligation struct {
	ID       string     `json:"id"`
	Kind     string     `json:"kind"`   // "assert" "nopanic" "unwind" "reach"
	Status   string     `json:"status"` // "discharged" "violated" "unknown" "known"
	Concrete bool       `json:"concrete,omitempty"`
	Finding  string     `json:"finding,omitempty"` // known-finding class that matched
	Msg      string     `json:"msg,omitempty"`
	Inputs   []InputRec `json:"inputs,omitempty"` // counterexample replay vector
	Sched    []int64    `json:"sched,omitempty"`
	HookPlan map[string][]int `json:"hook_plan,omitempty"`
	Pos      string     `json:"pos,omitempty"`
}

// PathResult is what one run reports back to the coordinator.
type PathResult struct {
	Prefix      []int64      `json:"prefix"`
	Taken       []int64      `json:"taken"`
	Pending     [][]int64    `json:"pending,omitempty"`
	Status      string       `json:"status"` // "done" "infeasible" "panic" "unsupported" "budget" "deadlock" "crash"
	Msg         string       `json:"msg,omitempty"`
	Obligations []Obligation `json:"obligations,omitempty"`
	Reached     bool         `json:"reached"`
	Queries     int          `json:"queries"`
	SolverNs    int64        `json:"solver_ns"`
	Steps       int64        `json:"steps"`
	PC          string       `json:"pc,omitempty"`
	ShapeVals   string       `json:"shape,omitempty"`
	Witness     []InputRec   `json:"witness,omitempty"`
	Funcs       []string     `json:"funcs,omitempty"`
	SymBranches int          `json:"sym_branches"`
	Stubs       []string     `json:"stubs,omitempty"`
	Notes       []string     `json:"notes,omitempty"`
}

type Path struct {
	S       *Solver
	Prefix  []int64
	Taken   []int64
	Pending [][]int64
	Inputs  []InputRec
	pc      []*term
	Obls    []Obligation
	Reached bool
	Steps   int64
	Notes   []string

	MaxSteps     int64
	MaxDecisions int
	symBranches  int
	nvars        int
	assumedFalse bool
	Known        map[string]bool // finding ids listed as "known"
	WantWitness  bool
	Stubs        map[string]bool
}

var CurPath *Path

type infeasiblePath struct{}
type budgetExceeded struct{ what string }
type engineAbort struct{ why string }

func (p *Path) freshVar(name string, w int) *term {
	p.nvars++
	return tVar(fmt.Sprintf("%s!%d", sanitize(name), p.nvars), w)
}

func sanitize(s string) string {
	return strings.Map(func(r rune) rune {
		if r == '|' || r == '\\' || r == '\n' {
			return '_'
		}
		return r
	}, s)
}

// NewInput creates a solver-quantified input of the given kind.
func (p *Path) NewInput(name string, k types.BasicKind, kindName string) value {
	w, _ := kindInfo(k)
	t := p.freshVar(name, w)
	p.S.define(t)
	p.Inputs = append(p.Inputs, InputRec{Name: name, Kind: kindName, t: t})
	return sym{t, k}
}

func (p *Path) addPC(c *term) {
	p.pc = append(p.pc, c)
	p.S.Assert(c)
}

func (p *Path) nextForced() (int64, bool) {
	i := len(p.Taken)
	if i < len(p.Prefix) {
		return p.Prefix[i], true
	}
	return 0, false
}

func (p *Path) checkBudget() {
	if p.MaxDecisions > 0 && len(p.Taken) >= p.MaxDecisions {
		panic(budgetExceeded{fmt.Sprintf("more than %d decisions on one path", p.MaxDecisions)})
	}
}

// DecideBool resolves a symbolic branch condition.
func (p *Path) DecideBool(c *term) bool {
	if c.isConst() {
		return c.isTrue()
	}
	p.checkBudget()
	p.symBranches++
	var v bool
	if f, ok := p.nextForced(); ok {
		v = f != 0
	} else {
		rt := p.S.CheckWith(c)
		rf := p.S.CheckWith(tNot(c))
		canT, canF := rt == "sat", rf == "sat"
		if rt == "unknown" || rt == "died" || rf == "unknown" || rf == "died" {
			// keep both sides that are not refuted; note the inconclusive query
			p.Notes = append(p.Notes, "solver-unknown at branch")
			canT = rt != "unsat"
			canF = rf != "unsat"
		}
		switch {
		case canT && canF:
			v = true
			alt := append(append([]int64{}, p.Taken...), 0)
			p.Pending = append(p.Pending, alt)
		case canT:
			v = true
		case canF:
			v = false
		default:
			panic(infeasiblePath{})
		}
	}
	if v {
		p.Taken = append(p.Taken, 1)
		p.addPC(c)
	} else {
		p.Taken = append(p.Taken, 0)
		p.addPC(tNot(c))
	}
	return v
}

// Choose is an n-ary decision that needs no solver (shapes, schedules, crash points).
func (p *Path) Choose(name, kind string, n int) int {
	if n <= 0 {
		panic(infeasiblePath{})
	}
	var v int64
	if n > 1 {
		p.checkBudget()
		if f, ok := p.nextForced(); ok {
			v = f
		} else {
			v = 0
			for a := n - 1; a >= 1; a-- {
				alt := append(append([]int64{}, p.Taken...), int64(a))
				p.Pending = append(p.Pending, alt)
			}
		}
		p.Taken = append(p.Taken, v)
	}
	if kind != "" {
		p.Inputs = append(p.Inputs, InputRec{Name: name, Kind: kind, Shape: true, Val: v})
	}
	return int(v)
}

// Concretize turns a symbolic integer into a concrete one by a decision over its feasible values.
func (p *Path) Concretize(s sym, limit int, why string) value {
	if s.t.isConst() {
		return fromTerm(s.t, s.k)
	}
	p.checkBudget()
	var v uint64
	if f, ok := p.nextForced(); ok {
		v = uint64(f)
	} else {
		// enumerate feasible values (bounded)
		var vals []uint64
		p.S.define(s.t)
		p.S.Push()
		for len(vals) <= limit {
			r := p.S.Check()
			if r != "sat" {
				if r != "unsat" {
					p.Notes = append(p.Notes, "solver-unknown while concretising "+why)
				}
				break
			}
			// bind value through a probe variable
			probe := p.freshVar("probe", max1(s.t.w))
			p.S.define(probe)
			if s.t.w == 0 {
				p.S.send(fmt.Sprintf("(assert (= %s %s))", probe.ref(), s.t.ref()))
			} else {
				p.S.send(fmt.Sprintf("(assert (= %s %s))", probe.ref(), s.t.ref()))
			}
			if r2 := p.S.Check(); r2 != "sat" {
				break
			}
			m := p.S.Model([]*term{probe})
			val := m[probe.name]
			vals = append(vals, val)
			p.S.send(fmt.Sprintf("(assert (not (= %s %s)))", s.t.ref(), tConst(max1(s.t.w), val).ref()))
		}
		p.S.Pop()
		if len(vals) == 0 {
			panic(infeasiblePath{})
		}
		if len(vals) > limit {
			panic(budgetExceeded{fmt.Sprintf("more than %d feasible values while concretising %s", limit, why)})
		}
		sort.Slice(vals, func(i, j int) bool { return vals[i] < vals[j] })
		v = vals[0]
		for _, a := range vals[1:] {
			alt := append(append([]int64{}, p.Taken...), int64(a))
			p.Pending = append(p.Pending, alt)
		}
	}
	p.Taken = append(p.Taken, int64(v))
	var eq *term
	if s.t.w == 0 {
		eq = tEq(s.t, tBool(v != 0))
	} else {
		eq = tCmp("=", s.t, tConst(s.t.w, v))
	}
	p.addPC(eq)
	return concreteOfKind(s.k, v)
}

// Assume constrains the rest of the path.
func (p *Path) Assume(c value) {
	switch c := c.(type) {
	case bool:
		if !c {
			panic(infeasiblePath{})
		}
	case sym:
		if c.t.isConst() {
			if c.t.isFalse() {
				panic(infeasiblePath{})
			}
			return
		}
		p.addPC(c.t)
		// feasibility is only re-established when not replaying a prefix
		if len(p.Taken) >= len(p.Prefix) {
			r := p.S.Check()
			if r == "unsat" {
				panic(infeasiblePath{})
			}
			if r != "sat" {
				p.Notes = append(p.Notes, "solver-unknown at assume")
			}
		}
	}
}

func (p *Path) modelInputs() []InputRec {
	var vars []*term
	for _, in := range p.Inputs {
		if in.t != nil {
			vars = append(vars, in.t)
		}
	}
	m := p.S.Model(vars)
	out := make([]InputRec, len(p.Inputs))
	for i, in := range p.Inputs {
		out[i] = in
		if in.t != nil {
			v := m[in.t.name]
			out[i].Val = signExt(v, max1(in.t.w))
			if in.Kind == "u64" || in.Kind == "u32" || in.Kind == "u16" || in.Kind == "byte" || in.Kind == "bool" {
				out[i].Val = int64(v)
			}
		}
		out[i].t = nil
	}
	return out
}

// Assert records an obligation c; known (may be nil) is the class predicate of a listed finding.
func (p *Path) Assert(c value, id string, finding string, class value, pos string) {
	ob := Obligation{ID: id, Kind: "assert", Pos: pos}
	if len(p.Taken) < len(p.Prefix) {
		// replaying a prefix: an ancestor path already decided this obligation under the same path condition
		switch c := c.(type) {
		case bool:
			if !c {
				panic(infeasiblePath{})
			}
		case sym:
			if c.t.isFalse() {
				panic(infeasiblePath{})
			}
			if !c.t.isConst() {
				p.addPC(c.t)
			}
		}
		return
	}
	switch c := c.(type) {
	case bool:
		ob.Concrete = true
		if c {
			ob.Status = "discharged"
			p.Obls = append(p.Obls, ob)
			return
		}
		// concretely false on this path: PC alone is the counterexample
		cl := toSym(boolOr(class, false)).t
		p.failWith(ob, tTrue, finding, cl)
		panic(infeasiblePath{}) // nothing left to explore with c assumed
	case sym:
		if c.t.isTrue() {
			ob.Concrete = true
			ob.Status = "discharged"
			p.Obls = append(p.Obls, ob)
			return
		}
		cl := toSym(boolOr(class, false)).t
		neg := tNot(c.t)
		r := p.S.CheckWith(neg)
		switch r {
		case "unsat":
			ob.Status = "discharged"
			p.Obls = append(p.Obls, ob)
			return
		case "sat":
			p.failWith(ob, neg, finding, cl)
		default:
			ob.Status = "unknown"
			ob.Msg = "solver " + r
			p.Obls = append(p.Obls, ob)
		}
		// continue with c assumed
		p.addPC(c.t)
		if r := p.S.Check(); r == "unsat" {
			panic(infeasiblePath{})
		}
	default:
		panic(unsupported(fmt.Sprintf("Assert of %T", c)))
	}
}

func boolOr(v value, d bool) value {
	if v == nil {
		return d
	}
	return v
}

// failWith reports counterexamples for PC ∧ neg, split by the known-class predicate.
func (p *Path) failWith(ob Obligation, neg *term, finding string, class *term) {
	listed := finding != "" && p.Known[finding]
	if !listed {
		class = tFalse
	}
	// (1) outside the known class: a new violation
	p.S.define(neg)
	p.S.define(class)
	p.S.Push()
	p.S.send("(assert " + neg.ref() + ")")
	p.S.send("(assert (not " + class.ref() + "))")
	r := p.S.Check()
	if r == "sat" {
		o := ob
		o.Status = "violated"
		o.Inputs = p.modelInputs()
		p.Obls = append(p.Obls, o)
	} else if r != "unsat" {
		o := ob
		o.Status = "unknown"
		o.Msg = "solver " + r
		p.Obls = append(p.Obls, o)
	}
	if r != "died" {
		p.S.Pop()
	}
	if !listed {
		return
	}
	// (2) inside the known class: a listed finding re-derived
	p.S.Push()
	p.S.send("(assert " + neg.ref() + ")")
	p.S.send("(assert " + class.ref() + ")")
	r = p.S.Check()
	if r == "sat" {
		o := ob
		o.Status = "known"
		o.Finding = finding
		o.Inputs = p.modelInputs()
		p.Obls = append(p.Obls, o)
	}
	if r != "died" {
		p.S.Pop()
	}
}

// PanicObligation records a target panic reached on a feasible path.
func (p *Path) PanicObligation(msg string, pos string) {
	ob := Obligation{ID: "no-panic", Kind: "nopanic", Msg: msg, Pos: pos}
	r := p.S.Check()
	switch r {
	case "sat":
		ob.Status = "violated"
		ob.Inputs = p.modelInputs()
	case "unsat":
		return
	default:
		ob.Status = "unknown"
	}
	p.Obls = append(p.Obls, ob)
}

// pcString renders the path condition for evidence samples.
func (p *Path) pcString() string {
	var parts []string
	n := 0
	for _, c := range p.pc {
		s := c.String()
		n += len(s)
		if n > 600 {
			parts = append(parts, "…")
			break
		}
		parts = append(parts, s)
	}
	return strings.Join(parts, " ∧ ")
}

func (p *Path) shapeString() string {
	var parts []string
	for _, in := range p.Inputs {
		if in.Shape {
			parts = append(parts, fmt.Sprintf("%s=%d", in.Name, in.Val))
		}
	}
	return strings.Join(parts, " ")
}
