package interp

// One long-lived SMT solver process per engine process, driven incrementally
// over stdin/stdout (push/pop). Any "(error" line makes the query inconclusive.

import (
	"bufio"
	"fmt"
	"io"
	"os"
	"os/exec"
	"strconv"
	"strings"
	"time"
)

type Solver struct {
	Bin       string
	Args      []string
	cmd       *exec.Cmd
	in        *bufio.Writer
	inRaw     io.WriteCloser
	out       *bufio.Reader
	defined   map[*term]bool
	levels    [][]*term
	declared  map[string]bool
	declLevel [][]string
	Queries   int
	SolverNs  int64
	Errors    int
	Log       io.Writer
	TimeoutMs int
	kind      string // "z3" or "cvc5"

	errSinceCheck bool
}

func NewSolver(bin string, timeoutMs int) *Solver {
	s := &Solver{Bin: bin, TimeoutMs: timeoutMs}
	s.Start()
	return s
}

func (s *Solver) Start() {
	base := s.Bin
	if i := strings.LastIndex(base, "/"); i >= 0 {
		base = base[i+1:]
	}
	var args []string
	if strings.HasPrefix(base, "cvc5") {
		s.kind = "cvc5"
		args = []string{"--incremental", "--produce-models", "--lang=smt2"}
		if s.TimeoutMs > 0 {
			args = append(args, fmt.Sprintf("--tlimit-per=%d", s.TimeoutMs))
		}
		args = append(args, s.Args...)
	} else {
		s.kind = "z3"
		args = []string{"-in"}
		args = append(args, s.Args...)
	}
	c := exec.Command(s.Bin, args...)
	inp, err := c.StdinPipe()
	if err != nil {
		panic(err)
	}
	outp, err := c.StdoutPipe()
	if err != nil {
		panic(err)
	}
	c.Stderr = os.Stderr
	if err := c.Start(); err != nil {
		panic(fmt.Sprintf("cannot start solver %s: %v", s.Bin, err))
	}
	s.cmd = c
	s.inRaw = inp
	s.in = bufio.NewWriterSize(inp, 1<<16)
	s.out = bufio.NewReaderSize(outp, 1<<16)
	s.defined = map[*term]bool{}
	s.declared = map[string]bool{}
	s.levels = [][]*term{nil}
	s.declLevel = [][]string{nil}
	if s.kind == "cvc5" {
		s.send("(set-logic ALL)")
	} else {
		s.send("(set-option :produce-models true)")
		if s.TimeoutMs > 0 {
			s.send(fmt.Sprintf("(set-option :timeout %d)", s.TimeoutMs))
		}
	}
}

func (s *Solver) Close() {
	if s.cmd != nil {
		s.inRaw.Close()
		s.cmd.Process.Kill()
		s.cmd.Wait()
		s.cmd = nil
	}
}

// Restart kills the solver and starts a fresh one (after unknown/timeouts that may leave it wedged).
func (s *Solver) Restart() {
	s.Close()
	s.Start()
}

func (s *Solver) send(l string) {
	if s.Log != nil {
		io.WriteString(s.Log, l+"\n")
	}
	s.in.WriteString(l)
	s.in.WriteByte('\n')
}

func (s *Solver) Push() {
	s.send("(push 1)")
	s.levels = append(s.levels, nil)
	s.declLevel = append(s.declLevel, nil)
}

func (s *Solver) Pop() {
	s.send("(pop 1)")
	n := len(s.levels) - 1
	for _, t := range s.levels[n] {
		delete(s.defined, t)
	}
	s.levels = s.levels[:n]
	for _, d := range s.declLevel[n] {
		delete(s.declared, d)
	}
	s.declLevel = s.declLevel[:n]
}

// define makes sure t (and everything below it) is known to the solver.
func (s *Solver) define(t *term) {
	if t.op == "const" || s.defined[t] {
		return
	}
	if t.op == "var" {
		if !s.declared[t.name] {
			s.send(fmt.Sprintf("(declare-const |%s| %s)", t.name, sortOf(t.w)))
			s.declared[t.name] = true
			n := len(s.declLevel) - 1
			s.declLevel[n] = append(s.declLevel[n], t.name)
		}
		return
	}
	// iterative post-order to survive deep chains
	type fr struct {
		t *term
		i int
	}
	stack := []fr{{t, 0}}
	for len(stack) > 0 {
		top := &stack[len(stack)-1]
		if top.i < len(top.t.args) {
			a := top.t.args[top.i]
			top.i++
			if a.op == "const" || s.defined[a] {
				continue
			}
			if a.op == "var" {
				s.define(a)
				continue
			}
			stack = append(stack, fr{a, 0})
			continue
		}
		n := top.t
		stack = stack[:len(stack)-1]
		if s.defined[n] {
			continue
		}
		s.send(fmt.Sprintf("(define-fun %s () %s %s)", n.ref(), sortOf(n.w), n.body()))
		s.defined[n] = true
		l := len(s.levels) - 1
		s.levels[l] = append(s.levels[l], n)
	}
}

func (s *Solver) Assert(t *term) {
	s.define(t)
	s.send("(assert " + t.ref() + ")")
}

// Check returns "sat", "unsat" or "unknown" (also for errors/timeouts).
func (s *Solver) Check() string {
	s.Queries++
	t0 := time.Now()
	s.send("(check-sat)")
	s.in.Flush()
	for {
		line, err := s.out.ReadString('\n')
		if err != nil {
			s.Errors++
			s.SolverNs += int64(time.Since(t0))
			s.Restart()
			return "died"
		}
		line = strings.TrimSpace(line)
		if line == "" {
			continue
		}
		if strings.HasPrefix(line, "(error") {
			s.Errors++
			fmt.Fprintln(os.Stderr, "SOLVER ERROR:", line)
			s.errSinceCheck = true
			continue // the sat/unsat line still follows; keep reading
		}
		if line == "sat" || line == "unsat" || line == "unknown" || line == "timeout" {
			if line == "timeout" {
				line = "unknown"
			}
			s.SolverNs += int64(time.Since(t0))
			if s.errSinceCheck {
				s.errSinceCheck = false
				return "unknown"
			}
			return line
		}
		// unexpected output
		fmt.Fprintln(os.Stderr, "SOLVER:", line)
	}
}

// CheckWith asserts extra terms in a nested scope and checks.
func (s *Solver) CheckWith(ts ...*term) string {
	for _, t := range ts {
		s.define(t)
	}
	s.Push()
	for _, t := range ts {
		s.send("(assert " + t.ref() + ")")
	}
	r := s.Check()
	if r == "died" {
		return "died"
	}
	s.Pop()
	return r
}

// Model returns values of the given variables after a sat answer (call before Pop).
func (s *Solver) Model(vars []*term) map[string]uint64 {
	m := map[string]uint64{}
	if len(vars) == 0 {
		return m
	}
	var sb strings.Builder
	sb.WriteString("(get-value (")
	for _, v := range vars {
		sb.WriteString(v.ref())
		sb.WriteByte(' ')
	}
	sb.WriteString("))")
	s.send(sb.String())
	s.in.Flush()
	// read one balanced s-expression
	var txt strings.Builder
	depth, started := 0, false
	inBar := false
	for {
		r, _, err := s.out.ReadRune()
		if err != nil {
			break
		}
		txt.WriteRune(r)
		if r == '|' {
			inBar = !inBar
		}
		if inBar {
			continue
		}
		if r == '(' {
			depth++
			started = true
		} else if r == ')' {
			depth--
		}
		if started && depth == 0 {
			break
		}
	}
	s.out.ReadString('\n')
	str := txt.String()
	if strings.Contains(str, "(error") {
		s.Errors++
		return nil
	}
	// parse pairs (|name| value)
	i := 0
	for i < len(str) {
		j := strings.IndexByte(str[i:], '|')
		if j < 0 {
			break
		}
		j += i
		k := strings.IndexByte(str[j+1:], '|')
		if k < 0 {
			break
		}
		k += j + 1
		name := str[j+1 : k]
		rest := strings.TrimLeft(str[k+1:], " \n\t")
		var val uint64
		switch {
		case strings.HasPrefix(rest, "#x"):
			e := 2
			for e < len(rest) && isHex(rest[e]) {
				e++
			}
			val, _ = strconv.ParseUint(rest[2:e], 16, 64)
		case strings.HasPrefix(rest, "#b"):
			e := 2
			for e < len(rest) && (rest[e] == '0' || rest[e] == '1') {
				e++
			}
			val, _ = strconv.ParseUint(rest[2:e], 2, 64)
		case strings.HasPrefix(rest, "true"):
			val = 1
		case strings.HasPrefix(rest, "false"):
			val = 0
		case strings.HasPrefix(rest, "(_ bv"):
			e := 5
			for e < len(rest) && rest[e] >= '0' && rest[e] <= '9' {
				e++
			}
			val, _ = strconv.ParseUint(rest[5:e], 10, 64)
		}
		m[name] = val
		i = k + 1
	}
	return m
}

func isHex(c byte) bool {
	return (c >= '0' && c <= '9') || (c >= 'a' && c <= 'f') || (c >= 'A' && c <= 'F')
}
