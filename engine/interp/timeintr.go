package interp

// Virtual time: time.Now reads the scheduler's clock; runtime timers are intrinsic
// objects whose firing is a scheduling event.

func init() {
	ext := externals
	ext["time.runtimeNano"] = func(fr *frame, args []value) value { return int64(1) }
	ext["time.now"] = func(fr *frame, args []value) value {
		// virtual clock starts at 2020-01-01T00:00:00Z
		const base = int64(1577836800)
		ns := Sched.now
		return tuple{base + ns/1e9, int32(ns % 1e9), int64(ns + 1)}
	}
	ext["time.runtimeNow"] = ext["time.now"]
}
