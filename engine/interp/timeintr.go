package interp

import "math"

// Virtual time: time.Now reads the scheduler's clock; runtime timers are intrinsic
// objects whose firing is a scheduling event.

func init() {
	ext := externals
	ext["time.runtimeNano"] = func(fr *frame, args []value) value { return int64(1) }
	ext["time.now"] = func(fr *frame, args []value) value {
		// virtual clock starts at 2020-01-01T00:00:00Z
		const base = int64(1577836800)
		ns := Sched.now
		return tuple{base + ns/1e9, int32(ns % 1e9), int64(ns + 1)}
	}
	ext["time.runtimeNow"] = ext["time.now"]
}

func init() {
	f1 := func(f func(float64) float64) externalFn {
		return func(fr *frame, args []value) value {
			x, ok := args[0].(float64)
			if !ok {
				panic(unsupported("floating point on a symbolic value"))
			}
			return f(x)
		}
	}
	externals["math.Floor"] = f1(math.Floor)
	externals["math.Ceil"] = f1(math.Ceil)
	externals["math.Trunc"] = f1(math.Trunc)
	externals["math.Round"] = f1(math.Round)
	externals["math.archFloor"] = f1(math.Floor)
	externals["math.archCeil"] = f1(math.Ceil)
	externals["math.archTrunc"] = f1(math.Trunc)
	externals["math.Pow"] = func(fr *frame, args []value) value { return math.Pow(args[0].(float64), args[1].(float64)) }
}

// ---- tickers and runtime timers: intrinsic objects; firing is driven by the harness
// (verif.FireTickers) - "a ticker may fire at any time" becomes an explicit harness choice.

var tickerChans []*chanObj
var tickerStopped = map[*chanObj]bool{}

func tickerChanOf(v value) *chanObj {
	if p, ok := v.(*value); ok && p != nil {
		if st, ok := (*p).(structure); ok && len(st) > 0 {
			if c, ok := st[0].(*chanObj); ok {
				return c
			}
		}
	}
	return nil
}

func init() {
	resetHooks = append(resetHooks, func() { tickerChans = nil; tickerStopped = map[*chanObj]bool{} })
	externals["time.NewTicker"] = func(fr *frame, args []value) value {
		noteStub("time.NewTicker: intrinsic ticker fired only by verif.FireTickers")
		timeT := fr.i.prog.ImportedPackage("time").Type("Time").Type()
		c := newChan(1, timeT)
		tickerChans = append(tickerChans, c)
		var cell value = structure{c, true}
		return &cell
	}
	externals["(*time.Ticker).Stop"] = func(fr *frame, args []value) value {
		if c := tickerChanOf(args[0]); c != nil {
			tickerStopped[c] = true // a stopped ticker delivers no more ticks
		}
		return nil
	}
	externals["(*time.Ticker).Reset"] = func(fr *frame, args []value) value {
		if c := tickerChanOf(args[0]); c != nil {
			delete(tickerStopped, c)
		}
		return nil
	}
	externals[VerifPkg+".FireTickers"] = func(fr *frame, args []value) value {
		timeT := fr.i.prog.ImportedPackage("time").Type("Time").Type()
		for _, c := range tickerChans {
			if Sched.canSend(c) && !c.closed && !tickerStopped[c] {
				Sched.doSend(c, zero(timeT))
			}
		}
		return nil
	}
	externals["github.com/segmentio/ksuid.New"] = func(fr *frame, args []value) value {
		noteStub("ksuid.New: fixed id")
		a := make(array, 20)
		for i := range a {
			a[i] = uint8(i + 1)
		}
		return a
	}
	externals["(github.com/segmentio/ksuid.KSUID).String"] = func(fr *frame, args []value) value {
		return "0ujsszwN8NRY24YaXiTIE2VWDTS"
	}
}

// ---- time.AfterFunc / NewTimer: intrinsic one-shot timers. They never fire on their own;
// verif.FireTimers runs the callback of every armed timer on its own goroutine ("a timer may
// expire at any moment after it was set" becomes an explicit harness choice).

type rtTimer struct {
	fn    value // func() for AfterFunc; nil for channel timers
	ch    *chanObj
	armed bool
}

var rtTimers = map[*value]*rtTimer{}
var rtTimerOrder []*value

func init() {
	resetHooks = append(resetHooks, func() { rtTimers = map[*value]*rtTimer{}; rtTimerOrder = nil })
	newT := func(fr *frame, fn value, withChan bool) *value {
		noteStub("time.AfterFunc/NewTimer: intrinsic timers fired only by verif.FireTimers")
		var ch *chanObj
		if withChan {
			ch = newChan(1, fr.i.prog.ImportedPackage("time").Type("Time").Type())
		}
		var cell value = structure{ch, true}
		p := &cell
		rtTimers[p] = &rtTimer{fn: fn, ch: ch, armed: true}
		rtTimerOrder = append(rtTimerOrder, p)
		return p
	}
	externals["time.AfterFunc"] = func(fr *frame, args []value) value { return newT(fr, args[1], false) }
	externals["time.NewTimer"] = func(fr *frame, args []value) value { return newT(fr, nil, true) }
	externals["time.After"] = func(fr *frame, args []value) value {
		p := newT(fr, nil, true)
		return rtTimers[p].ch
	}
	externals["(*time.Timer).Stop"] = func(fr *frame, args []value) value {
		t := rtTimers[args[0].(*value)]
		if t == nil {
			return false
		}
		was := t.armed
		t.armed = false
		return was
	}
	externals["(*time.Timer).Reset"] = func(fr *frame, args []value) value {
		t := rtTimers[args[0].(*value)]
		if t == nil {
			return false
		}
		was := t.armed
		t.armed = true
		return was
	}
	externals[VerifPkg+".FireTimers"] = func(fr *frame, args []value) value {
		n := 0
		timeT := fr.i.prog.ImportedPackage("time").Type("Time").Type()
		for _, p := range rtTimerOrder {
			t := rtTimers[p]
			if !t.armed {
				continue
			}
			t.armed = false
			n++
			if t.fn != nil {
				fn := t.fn
				i := fr.i
				Sched.spawn("timer", func() { call(i, nil, 0, fn, nil) })
			} else if t.ch != nil && Sched.canSend(t.ch) {
				Sched.doSend(t.ch, zero(timeT))
			}
		}
		return n
	}
	// LongPause: a long time passes = every armed timer expires
	externals[VerifPkg+".LongPause"] = func(fr *frame, args []value) value {
		externals[VerifPkg+".FireTimers"](fr, args)
		return nil
	}
}
