package interp

import "math"

// Virtual time: time.Now reads the scheduler's clock; runtime timers are intrinsic
// objects whose firing is a scheduling event.

func init() {
	ext := externals
	ext["time.runtimeNano"] = func(fr *frame, args []value) value { return int64(1) }
	ext["time.now"] = func(fr *frame, args []value) value {
		// virtual clock starts at 2020-01-01T00:00:00Z
		const base = int64(1577836800)
		ns := Sched.now
		return tuple{base + ns/1e9, int32(ns % 1e9), int64(ns + 1)}
	}
	ext["time.runtimeNow"] = ext["time.now"]
}

func init() {
	f1 := func(f func(float64) float64) externalFn {
		return func(fr *frame, args []value) value {
			x, ok := args[0].(float64)
			if !ok {
				panic(unsupported("floating point on a symbolic value"))
			}
			return f(x)
		}
	}
	externals["math.Floor"] = f1(math.Floor)
	externals["math.Ceil"] = f1(math.Ceil)
	externals["math.Trunc"] = f1(math.Trunc)
	externals["math.Round"] = f1(math.Round)
	externals["math.archFloor"] = f1(math.Floor)
	externals["math.archCeil"] = f1(math.Ceil)
	externals["math.archTrunc"] = f1(math.Trunc)
	externals["math.Pow"] = func(fr *frame, args []value) value { return math.Pow(args[0].(float64), args[1].(float64)) }
}
