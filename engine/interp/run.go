package interp

// Engine: per-process state (program, interpreter, solver) and the execution of
// one path of one harness.

import (
	"fmt"
	"go/token"
	"go/types"
	"os"
	"runtime"
	"runtime/debug"
	"sort"
	"strings"

	"golang.org/x/tools/go/ssa"
)

// rtError is a run-time error raised in the target program by the interpreter.
type rtError string

func (e rtError) Error() string { return "runtime error: " + string(e) }

// classifyHostPanic maps a host runtime error inside interpreter code to either a
// target run-time error or an engine limitation.
func classifyHostPanic(re runtime.Error) interface{} {
	if _, ok := re.(*runtime.TypeAssertionError); ok {
		if os.Getenv("GOSYM_DEBUG") != "" {
			debug.PrintStack()
		}
		return unsupported("interpreter type assertion: " + re.Error())
	}
	msg := re.Error()
	return rtError(strings.TrimPrefix(msg, "runtime error: "))
}

type timerObj struct {
	id      int
	armed   bool
	fn      func()
	when    int64
	what    string
}

type Engine struct {
	Prog         *ssa.Program
	I            *interpreter
	S            *Solver
	Known        map[string]bool
	MaxSteps     int64
	MaxDecisions int
	InitAllowFn  func(path string) bool
	RepoPrefix   string
	Trace        bool
	Witness      bool
	resetList    []*ssa.Global
}

func NewEngine(prog *ssa.Program, solverBin string, timeoutMs int) *Engine {
	i := &interpreter{prog: prog, globals: make(map[*ssa.Global]*value), sizes: &types.StdSizes{WordSize: 8, MaxAlign: 8}, goroutines: 1}
	i.runtimeErrorString = prog.ImportedPackage("runtime").Type("errorString").Object().Type()
	i.funcsRun = map[*ssa.Function]bool{}
	e := &Engine{Prog: prog, I: i, MaxSteps: 20_000_000, MaxDecisions: 2000, RepoPrefix: "reduction.dev/reduction"}
	if solverBin != "" {
		e.S = NewSolver(solverBin, timeoutMs)
	}
	return e
}

func (e *Engine) resetGlobals() {
	i := e.I
	if e.resetList == nil {
		// first path: allocate everything; remember which globals need re-zeroing per path.
		// Large arrays of packages whose init never runs stay all-zero tables that nothing
		// writes; they are allocated once.
		for _, p := range i.prog.AllPackages() {
			allowed := InitAllow == nil || InitAllow(p.Pkg.Path())
			for _, m := range p.Members {
				if v, ok := m.(*ssa.Global); ok {
					cell := zero(mustDeref(v.Type()))
					i.globals[v] = &cell
					if allowed || cellCount(cell, 65) <= 64 {
						e.resetList = append(e.resetList, v)
					}
				}
			}
		}
		if e.resetList == nil {
			e.resetList = []*ssa.Global{}
		}
		return
	}
	for _, v := range e.resetList {
		*i.globals[v] = zero(mustDeref(v.Type()))
	}
}

// cellCount counts the cells of a zero value up to limit.
func cellCount(v value, limit int) int {
	n := 1
	switch v := v.(type) {
	case array:
		for _, e := range v {
			n += cellCount(e, limit-n)
			if n > limit {
				return n
			}
		}
	case structure:
		for _, e := range v {
			n += cellCount(e, limit-n)
			if n > limit {
				return n
			}
		}
	}
	return n
}

// RunPath executes harness fn of pkg under the given decision prefix.
func (e *Engine) RunPath(pkg *ssa.Package, fnName string, prefix []int64) (res PathResult) {
	fn := pkg.Func(fnName)
	if fn == nil {
		return PathResult{Prefix: prefix, Status: "unsupported", Msg: "no such harness function " + fnName}
	}
	i := e.I
	if e.Trace {
		i.mode |= EnableTracing
	}
	e.resetGlobals()
	p := &Path{S: e.S, Prefix: prefix, MaxSteps: e.MaxSteps, MaxDecisions: e.MaxDecisions, Known: e.Known, Stubs: map[string]bool{}}
	CurPath = p
	Sched = newScheduler()
	resetIntrinsicState()
	lastPanicStack = ""
	unsupStack = ""
	i.funcsRun = map[*ssa.Function]bool{}
	q0, ns0 := e.S.Queries, e.S.SolverNs
	e.S.Push()
	res.Prefix = prefix
	res.Status = "done"
	func() {
		defer func() {
			r := recover()
			if r == nil {
				return
			}
			if ap, ok := r.(abortPanic); ok {
				r = ap.cause
			}
			switch r := r.(type) {
			case infeasiblePath:
				res.Status = "infeasible"
			case budgetExceeded:
				res.Status = "budget"
				res.Msg = r.what
			case unsupported:
				res.Status = "unsupported"
				res.Msg = string(r)
			case engineAbort:
				res.Status = "unsupported"
				res.Msg = r.why
			case deadlockPanic:
				res.Status = "deadlock"
				res.Msg = r.msg
			case targetPanic:
				res.Status = "panic"
				res.Msg = panicString(i, r.v)
			case rtError:
				res.Status = "panic"
				res.Msg = r.Error()
			case runtime.Error:
				c := classifyHostPanic(r)
				if u, ok := c.(unsupported); ok {
					res.Status = "unsupported"
					res.Msg = string(u)
				} else {
					res.Status = "panic"
					res.Msg = c.(rtError).Error()
				}
			default:
				res.Status = "unsupported"
				res.Msg = fmt.Sprintf("interpreter panic: %v", r)
				if os.Getenv("GOSYM_DEBUG") != "" {
					debug.PrintStack()
				}
			}
		}()
		inInit = true
		call(i, nil, token.NoPos, pkg.Func("init"), nil)
		inInit = false
		call(i, nil, token.NoPos, fn, nil)
	}()
	func() {
		defer func() { recover() }()
		Sched.killAll()
	}()
	if res.Status == "panic" || res.Status == "unsupported" {
		res.Msg += " @" + lastPanicStack
	}
	if res.Status == "unsupported" && lastPanicStack == "" && unsupStack != "" {
		res.Msg += " @" + unsupStack
	}
	if inInit && (res.Status == "panic" || res.Status == "deadlock") {
		res.Status = "unsupported"
		res.Msg = "package initialisation failed in the interpreter: " + res.Msg
	}
	if res.Status == "panic" {
		p.PanicObligation(res.Msg, "")
	}
	if res.Status == "deadlock" {
		// a deadlock the harness did not expect is reported like a panic
		p.PanicObligation("deadlock: "+res.Msg, "")
	}
	if e.Witness && p.Reached && len(p.Inputs) > 0 {
		if e.S.Check() == "sat" {
			res.Witness = p.modelInputs()
		}
	}
	e.S.Pop()
	if len(hookPasses) > 0 {
		for k := range p.Obls {
			if p.Obls[k].Status == "violated" || p.Obls[k].Status == "known" {
				hp := map[string][]int{}
				for n, v := range hookPasses {
					hp[n] = append([]int(nil), v...)
				}
				p.Obls[k].HookPlan = hp
			}
		}
	}
	res.Taken = p.Taken
	res.Pending = p.Pending
	res.Obligations = p.Obls
	res.Reached = p.Reached
	res.Queries = e.S.Queries - q0
	res.SolverNs = e.S.SolverNs - ns0
	res.Steps = p.Steps
	res.PC = p.pcString()
	res.ShapeVals = p.shapeString()
	res.SymBranches = p.symBranches
	res.Notes = p.Notes
	for f := range i.funcsRun {
		res.Funcs = append(res.Funcs, f.String())
	}
	sort.Strings(res.Funcs)
	for s := range p.Stubs {
		res.Stubs = append(res.Stubs, s)
	}
	sort.Strings(res.Stubs)
	CurPath = nil
	return res
}

func panicString(i *interpreter, v value) string {
	if ifc, ok := v.(iface); ok {
		if s, ok := ifc.v.(string); ok {
			return s
		}
		// error value: try Error()
		if ifc.t != nil {
			if m := findMethod(i, ifc.t, "Error"); m != nil {
				var out string
				func() {
					defer func() { recover() }()
					if s, ok := call(i, nil, token.NoPos, m, []value{ifc.v}).(string); ok {
						out = s
					}
				}()
				if out != "" {
					return out
				}
			}
		}
	}
	return toString(v)
}

func findMethod(i *interpreter, t types.Type, name string) *ssa.Function {
	ms := i.prog.MethodSets.MethodSet(t)
	for k := 0; k < ms.Len(); k++ {
		if ms.At(k).Obj().Name() == name {
			return i.prog.MethodValue(ms.At(k))
		}
	}
	return nil
}

var inInit bool
var unsupStack string

var resetHooks []func()

func resetIntrinsicState() {
	for _, f := range resetHooks {
		f()
	}
}
