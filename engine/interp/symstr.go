package interp

// Byte sequences with symbolic content: comparison terms and the symstr value kind
// (a Go string some of whose bytes are symbolic).

import (
	"go/token"
	"go/types"
)

// symstr is a string value with at least one symbolic byte. Elements are uint8 or sym(Uint8).
type symstr []value

func byteTerm(v value) *term {
	switch v := v.(type) {
	case uint8:
		return tConst(8, uint64(v))
	case sym:
		return v.t
	}
	panic(unsupported("byteTerm of non-byte"))
}

func strToVals(s string) []value {
	out := make([]value, len(s))
	for i := 0; i < len(s); i++ {
		out[i] = s[i]
	}
	return out
}

// asByteSeq views a string-like or []byte value as a sequence of byte values.
func asByteSeq(v value) []value {
	switch v := v.(type) {
	case string:
		return strToVals(v)
	case symstr:
		return []value(v)
	case []value:
		return v
	case nil:
		return nil
	}
	panic(unsupported("asByteSeq"))
}

// mkString builds a string value from byte values (host string when fully concrete).
func mkString(bs []value) value {
	conc := true
	for _, b := range bs {
		if _, ok := b.(sym); ok {
			conc = false
			break
		}
	}
	if conc {
		buf := make([]byte, len(bs))
		for i, b := range bs {
			buf[i] = b.(uint8)
		}
		return string(buf)
	}
	return symstr(append([]value(nil), bs...))
}

// seqCompare returns terms for a < b (lexicographic) and a == b.
func seqCompare(a, b []value) (lt, eq *term) {
	n := len(a)
	if len(b) < n {
		n = len(b)
	}
	lt = tBool(len(a) < len(b))
	eq = tBool(len(a) == len(b))
	for i := n - 1; i >= 0; i-- {
		x, y := byteTerm(a[i]), byteTerm(b[i])
		e := tCmp("=", x, y)
		l := tCmp("bvult", x, y)
		lt = tOr(l, tAnd(e, lt))
		eq = tAnd(e, eq)
	}
	return
}

// seqHasPrefix returns the term for "a starts with p".
func seqHasPrefix(a, p []value) *term {
	if len(p) > len(a) {
		return tFalse
	}
	r := tTrue
	for i := len(p) - 1; i >= 0; i-- {
		r = tAnd(tCmp("=", byteTerm(a[i]), byteTerm(p[i])), r)
	}
	return r
}

// seqCompareInt returns bytes.Compare(a,b) as an int value (-1,0,1), symbolic if needed.
func seqCompareInt(a, b []value) value {
	lt, eq := seqCompare(a, b)
	t := tIte(lt, tConst(64, ^uint64(0)), tIte(eq, tConst(64, 0), tConst(64, 1)))
	return fromTerm(t, types.Int)
}

func isStringLike(v value) bool {
	switch v.(type) {
	case string, symstr:
		return true
	}
	return false
}

// symStringBinop handles binary operators where at least one operand is a symstr.
func symStringBinop(op token.Token, x, y value) value {
	a, b := asByteSeq(x), asByteSeq(y)
	switch op {
	case token.ADD:
		return mkString(append(append([]value(nil), a...), b...))
	}
	lt, eq := seqCompare(a, b)
	var r *term
	switch op {
	case token.EQL:
		r = eq
	case token.NEQ:
		r = tNot(eq)
	case token.LSS:
		r = lt
	case token.LEQ:
		r = tOr(lt, eq)
	case token.GTR:
		r = tNot(tOr(lt, eq))
	case token.GEQ:
		r = tNot(lt)
	default:
		panic(unsupported("string op " + op.String()))
	}
	return fromTerm(r, types.Bool)
}
