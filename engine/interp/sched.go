package interp

// Deterministic scheduler: every interpreted goroutine is a host goroutine, but
// exactly one holds the baton at any time. Channel operations follow the Go
// runtime's queue semantics; sync objects are modelled by wait conditions.
// In explore mode the choice of the next goroutine at every visible operation
// is a path decision.

import (
	"fmt"
	"go/types"
)

type gstate int

const (
	gRunnable gstate = iota
	gRunning
	gBlocked   // waiting in a channel queue (made runnable explicitly)
	gWaitCond  // waiting until cond() holds (polled)
	gParked    // coroutine not currently resumed
	gWaitCoro  // waiting for a coroutine it resumed
	gDone
)

type gor struct {
	id      int
	name    string
	wake    chan struct{}
	state   gstate
	cond    func() bool
	killed  bool
	exited  chan struct{}
	coro    bool
	resumer *gor
	what    string // what it is blocked on (diagnostics)
	daemon  bool   // timer pseudo-goroutines etc.
	yielding bool  // inside quiesce: runs again only when nobody else can
	top      *frame // innermost interpreter frame (GC roots)
}

type enginePanic interface{ enginePanic() }

type killedGoroutine struct{}
type deadlockPanic struct{ msg string }
type abortPanic struct{ cause interface{} }

func (killedGoroutine) enginePanic() {}
func (deadlockPanic) enginePanic()   {}
func (abortPanic) enginePanic()      {}
func (infeasiblePath) enginePanic()  {}
func (budgetExceeded) enginePanic()  {}
func (unsupported) enginePanic()     {}
func (engineAbort) enginePanic()     {}

type scheduler struct {
	gs           []*gor
	cur          *gor
	main         *gor
	explore      bool
	hooksOnly    bool // schedule decisions only at hook points: an arriving goroutine passes or waits to be overtaken
	hookWaiters  map[string][]*gor
	exploreSelect bool // a select with several ready cases is a decision even when schedules are not explored
	preemptBound int
	preemptions  int
	abort        interface{} // panic value to deliver to main
	mutexes      map[*value]*mutexObj
	wgs          map[*value]*wgObj
	onces        map[*value]*onceObj
	conds        map[*value]*condObj
	nextID       int
	timers       []*timerObj
	now          int64 // virtual clock, ns
	switches     int
}

type mutexObj struct {
	locked  bool
	readers int
	writerWaiting int
}
type wgObj struct{ n int }
type onceObj struct {
	done    bool
	running bool
}
type condObj struct{ gen int }

var Sched *scheduler

func newScheduler() *scheduler {
	s := &scheduler{
		mutexes: map[*value]*mutexObj{},
		wgs:     map[*value]*wgObj{},
		onces:   map[*value]*onceObj{},
		conds:   map[*value]*condObj{},
		preemptBound: -1,
	}
	g := &gor{id: 0, name: "main", wake: make(chan struct{}, 1), state: gRunning, exited: make(chan struct{})}
	s.gs = []*gor{g}
	s.cur, s.main = g, g
	s.nextID = 1
	return s
}

func (s *scheduler) isRunnable(g *gor) bool {
	switch g.state {
	case gRunnable, gRunning:
		return true
	case gWaitCond:
		return g.cond()
	}
	return false
}

func (s *scheduler) runnable() []*gor {
	var out, low []*gor
	for _, g := range s.gs {
		if s.isRunnable(g) {
			if g.yielding && g != s.cur {
				low = append(low, g)
			} else {
				out = append(out, g)
			}
		}
	}
	if len(out) == 0 {
		return low
	}
	return out
}

// park waits for the baton.
func (s *scheduler) park(g *gor) {
	<-g.wake
	if g.killed {
		panic(killedGoroutine{})
	}
	s.cur = g
	if g.state != gWaitCond {
		g.state = gRunning
	}
	if g == s.main && s.abort != nil {
		a := s.abort
		s.abort = nil
		panic(abortPanic{a})
	}
}

func (s *scheduler) handTo(next *gor) {
	s.switches++
	next.wake <- struct{}{}
}

// dispatch is called by the current goroutine when it cannot continue (blocked or done).
func (s *scheduler) dispatch() {
	cur := s.cur
	for {
		rs := s.runnable()
		if len(rs) == 0 && s.releaseHookWaiter() {
			rs = s.runnable()
		}
		if len(rs) == 0 {
			s.fail(deadlockPanic{s.describeBlocked()})
			return
		}
		var next *gor
		if s.explore && !s.hooksOnly && len(rs) > 1 {
			next = rs[CurPath.Choose("sched", "", len(rs))]
		} else {
			next = rs[0]
		}
		if next == cur {
			if cur.state == gWaitCond {
				cur.state = gRunning
			}
			return
		}
		s.handTo(next)
		if cur.state == gDone {
			return
		}
		s.park(cur)
		// woken: if waiting on a condition, re-check (someone may have taken it)
		if cur.state == gWaitCond {
			if cur.cond() {
				cur.state = gRunning
				return
			}
			continue
		}
		return
	}
}

// fail aborts the whole path with panic value p (delivered on main).
func (s *scheduler) fail(p interface{}) {
	if s.cur == s.main {
		panic(p)
	}
	s.abort = p
	cur := s.cur
	s.handTo(s.main)
	if cur.state == gDone {
		return
	}
	// wait to be killed
	<-cur.wake
	panic(killedGoroutine{})
}

func (s *scheduler) describeBlocked() string {
	msg := "all goroutines are asleep:"
	for _, g := range s.gs {
		if g.state != gDone && g.state != gParked {
			msg += fmt.Sprintf(" [g%d %s: %s]", g.id, g.name, g.what)
		}
	}
	return msg
}

// point is a scheduling point before a visible (synchronisation) operation.
func (s *scheduler) point() {
	if !s.explore || s.hooksOnly {
		return
	}
	s.choosePoint()
}

// hookPoint is an explicit scheduling point in the repository (verifhook.Point).
// Mode 2: an ordinary pre-emption point. Mode 1: the arriving goroutine either passes,
// or waits until a later arrival at the same point has passed (or nothing else can run).
func (s *scheduler) hookPoint(name string) {
	if !s.explore {
		return
	}
	if !s.hooksOnly {
		s.choosePoint()
		return
	}
	// waiting is the same as passing when nothing else can run (the waiter would be released at once)
	alone := len(s.hookWaiters) == 0
	for _, g := range s.runnable() {
		if g != s.cur {
			alone = false
		}
	}
	if !alone && CurPath.Choose("hook-wait:"+name, "", 2) == 1 {
		cur := s.cur
		if s.hookWaiters == nil {
			s.hookWaiters = map[string][]*gor{}
		}
		s.hookWaiters[name] = append(s.hookWaiters[name], cur)
		s.block("hook " + name)
		return
	}
	// passing releases everybody waiting at this point
	for _, g := range s.hookWaiters[name] {
		s.ready(g)
	}
	delete(s.hookWaiters, name)
}

// yield: mode 2 = pre-emption point; mode 1 = let every other goroutine run until it blocks.
func (s *scheduler) yield() {
	if !s.explore {
		return
	}
	if s.hooksOnly {
		s.quiesce()
		return
	}
	s.choosePoint()
}

func (s *scheduler) releaseHookWaiter() bool {
	var best string
	for n, ws := range s.hookWaiters {
		if len(ws) > 0 && (best == "" || n < best) {
			best = n
		}
	}
	if best == "" {
		return false
	}
	g := s.hookWaiters[best][0]
	s.hookWaiters[best] = s.hookWaiters[best][1:]
	if len(s.hookWaiters[best]) == 0 {
		delete(s.hookWaiters, best)
	}
	s.ready(g)
	return true
}

func (s *scheduler) choosePoint() {
	if s.preemptBound >= 0 && s.preemptions >= s.preemptBound {
		return
	}
	rs := s.runnable()
	if len(rs) <= 1 {
		return
	}
	// order: current first so that alternative 0 = no pre-emption
	cur := s.cur
	ord := []*gor{cur}
	for _, g := range rs {
		if g != cur {
			ord = append(ord, g)
		}
	}
	k := CurPath.Choose("sched", "", len(ord))
	if k == 0 {
		return
	}
	s.preemptions++
	cur.state = gRunnable
	s.handTo(ord[k])
	s.park(cur)
}

// waitUntil blocks the current goroutine until cond holds.
func (s *scheduler) waitUntil(what string, cond func() bool) {
	cur := s.cur
	if !s.explore && cond() {
		return
	}
	if s.explore {
		// allow others to run first even when the condition already holds
		s.point()
		if cond() {
			return
		}
	}
	cur.state = gWaitCond
	cur.cond = cond
	cur.what = what
	s.dispatch()
	cur.cond = nil
	cur.what = ""
}

// block parks the current goroutine until someone calls ready(g).
func (s *scheduler) block(what string) {
	cur := s.cur
	cur.state = gBlocked
	cur.what = what
	s.dispatch()
	cur.what = ""
}

func (s *scheduler) ready(g *gor) {
	if g.state == gBlocked {
		g.state = gRunnable
	}
}

// spawn starts a new interpreted goroutine running f.
func (s *scheduler) spawn(name string, f func()) *gor {
	g := &gor{id: s.nextID, name: name, wake: make(chan struct{}, 1), state: gRunnable, exited: make(chan struct{})}
	s.nextID++
	s.gs = append(s.gs, g)
	go s.body(g, f)
	return g
}

func (s *scheduler) body(g *gor, f func()) {
	defer close(g.exited)
	defer func() {
		r := recover()
		if r == nil {
			return
		}
		if _, ok := r.(killedGoroutine); ok {
			return
		}
		// any other panic escaping a goroutine aborts the path
		g.state = gDone
		s.abort = r
		s.switches++
		s.main.wake <- struct{}{}
	}()
	<-g.wake
	if g.killed {
		return
	}
	s.cur = g
	g.state = gRunning
	f()
	g.state = gDone
	if g.coro && g.resumer != nil {
		r := g.resumer
		g.resumer = nil
		r.state = gRunning
		s.handTo(r)
		return
	}
	s.dispatch()
}

// killAll terminates every goroutine except main (called by main at the end of a path).
func (s *scheduler) killAll() {
	for _, g := range s.gs {
		if g == s.main || g.state == gDone {
			continue
		}
		g.killed = true
		select {
		case g.wake <- struct{}{}:
		default:
		}
	}
	for _, g := range s.gs {
		if g == s.main {
			continue
		}
		<-g.exited
	}
}

// quiesce runs all other goroutines until none is runnable, then returns to the caller.
func (s *scheduler) quiesce() {
	cur := s.cur
	cur.yielding = true
	defer func() { cur.yielding = false }()
	for {
		var next *gor
		for _, g := range s.gs {
			if g != cur && !g.yielding && s.isRunnable(g) {
				next = g
				break
			}
		}
		if next == nil {
			return
		}
		cur.state = gRunnable
		// temporarily make cur the lowest priority by handing over directly
		s.handTo(next)
		s.park(cur)
	}
}

// ---------------------------------------------------------------- channels

type chanObj struct {
	cap    int
	buf    []value
	closed bool
	recvq  []*waiter
	sendq  []*waiter
	elemT  types.Type
	id     int
}

type waiter struct {
	g      *gor
	val    value // value to send / received value
	ok     bool
	sel    *selWait
	idx    int
	closed bool // woken by close
	done   bool
}

type selWait struct {
	fired  bool
	chosen int
	val    value
	ok     bool
	closedSend bool
}

var chanCounter int

func newChan(capacity int, elemT types.Type) *chanObj {
	chanCounter++
	return &chanObj{cap: capacity, elemT: elemT, id: chanCounter}
}

func dequeue(q *[]*waiter) *waiter {
	for len(*q) > 0 {
		w := (*q)[0]
		*q = (*q)[1:]
		if w.sel != nil && w.sel.fired {
			continue
		}
		if w.done {
			continue
		}
		return w
	}
	return nil
}

func hasWaiter(q []*waiter) bool {
	for _, w := range q {
		if w.done || (w.sel != nil && w.sel.fired) {
			continue
		}
		return true
	}
	return false
}

func (s *scheduler) fire(w *waiter, val value, ok bool) {
	w.done = true
	w.val, w.ok = val, ok
	if w.sel != nil {
		w.sel.fired = true
		w.sel.chosen = w.idx
		w.sel.val, w.sel.ok = val, ok
	}
	s.ready(w.g)
}

func (s *scheduler) canSend(c *chanObj) bool {
	return c != nil && (c.closed || hasWaiter(c.recvq) || len(c.buf) < c.cap)
}

func (s *scheduler) canRecv(c *chanObj) bool {
	return c != nil && (len(c.buf) > 0 || hasWaiter(c.sendq) || c.closed)
}

// doSend performs a send that is known to be possible without blocking.
func (s *scheduler) doSend(c *chanObj, v value) {
	if c.closed {
		panic(rtError("send on closed channel"))
	}
	if w := dequeue(&c.recvq); w != nil {
		s.fire(w, v, true)
		return
	}
	c.buf = append(c.buf, v)
}

// doRecv performs a receive that is known to be possible without blocking.
func (s *scheduler) doRecv(c *chanObj) (value, bool) {
	if len(c.buf) > 0 {
		v := c.buf[0]
		c.buf = c.buf[1:]
		if w := dequeue(&c.sendq); w != nil {
			c.buf = append(c.buf, w.val)
			s.fire(w, nil, true)
		}
		return v, true
	}
	if w := dequeue(&c.sendq); w != nil {
		v := w.val
		s.fire(w, nil, true)
		return v, true
	}
	if c.closed {
		return zero(c.elemT), false
	}
	panic("doRecv: not ready")
}

func (s *scheduler) send(c *chanObj, v value) {
	s.point()
	if c == nil {
		s.block("send on nil channel")
		panic("unreachable")
	}
	if s.canSend(c) {
		s.doSend(c, v)
		return
	}
	w := &waiter{g: s.cur, val: v}
	c.sendq = append(c.sendq, w)
	s.block(fmt.Sprintf("chan send #%d", c.id))
	if w.closed {
		panic(rtError("send on closed channel"))
	}
}

func (s *scheduler) recv(c *chanObj) (value, bool) {
	s.point()
	if c == nil {
		s.block("receive from nil channel")
		panic("unreachable")
	}
	if s.canRecv(c) {
		return s.doRecv(c)
	}
	w := &waiter{g: s.cur}
	c.recvq = append(c.recvq, w)
	s.block(fmt.Sprintf("chan receive #%d", c.id))
	if w.closed {
		return zero(c.elemT), false
	}
	return w.val, w.ok
}

func (s *scheduler) closeChan(c *chanObj) {
	s.point()
	if c == nil {
		panic(rtError("close of nil channel"))
	}
	if c.closed {
		panic(rtError("close of closed channel"))
	}
	c.closed = true
	for {
		w := dequeue(&c.recvq)
		if w == nil {
			break
		}
		w.closed = true
		s.fire(w, zero(c.elemT), false)
	}
	for {
		w := dequeue(&c.sendq)
		if w == nil {
			break
		}
		w.closed = true
		if w.sel != nil {
			w.sel.closedSend = true
		}
		s.fire(w, nil, false)
	}
}

type selCase struct {
	send bool
	ch   *chanObj
	val  value
}

// selectOp implements select; returns chosen index (-1 = default), received value and ok.
func (s *scheduler) selectOp(cases []selCase, blocking bool) (int, value, bool) {
	s.point()
	var ready []int
	for i, c := range cases {
		if c.ch == nil {
			continue
		}
		if c.send && s.canSend(c.ch) || !c.send && s.canRecv(c.ch) {
			ready = append(ready, i)
		}
	}
	if len(ready) > 0 {
		k := 0
		if ((s.explore && !s.hooksOnly) || s.exploreSelect) && len(ready) > 1 {
			k = CurPath.Choose("select", "", len(ready))
		}
		i := ready[k]
		c := cases[i]
		if c.send {
			s.doSend(c.ch, c.val)
			return i, nil, false
		}
		v, ok := s.doRecv(c.ch)
		return i, v, ok
	}
	if !blocking {
		return -1, nil, false
	}
	sw := &selWait{}
	any := false
	for i, c := range cases {
		if c.ch == nil {
			continue
		}
		any = true
		w := &waiter{g: s.cur, sel: sw, idx: i, val: c.val}
		if c.send {
			c.ch.sendq = append(c.ch.sendq, w)
		} else {
			c.ch.recvq = append(c.ch.recvq, w)
		}
	}
	_ = any
	s.block("select")
	if sw.closedSend {
		panic(rtError("send on closed channel"))
	}
	c := cases[sw.chosen]
	if c.send {
		return sw.chosen, nil, false
	}
	if !sw.ok && sw.val == nil {
		return sw.chosen, zero(c.ch.elemT), false
	}
	return sw.chosen, sw.val, sw.ok
}

// ---------------------------------------------------------------- sync objects

func (s *scheduler) mutex(p *value) *mutexObj {
	m := s.mutexes[p]
	if m == nil {
		m = &mutexObj{}
		s.mutexes[p] = m
	}
	return m
}

func (s *scheduler) lock(p *value) {
	m := s.mutex(p)
	s.waitUntil("Mutex.Lock", func() bool { return !m.locked && m.readers == 0 })
	m.locked = true
}

func (s *scheduler) tryLock(p *value) bool {
	m := s.mutex(p)
	s.point()
	if !m.locked && m.readers == 0 {
		m.locked = true
		return true
	}
	return false
}

func (s *scheduler) unlock(p *value) {
	m := s.mutex(p)
	if !m.locked {
		panic(rtError("sync: unlock of unlocked mutex"))
	}
	m.locked = false
}

func (s *scheduler) rlock(p *value) {
	m := s.mutex(p)
	s.waitUntil("RWMutex.RLock", func() bool { return !m.locked })
	m.readers++
}

func (s *scheduler) runlock(p *value) {
	m := s.mutex(p)
	if m.readers <= 0 {
		panic(rtError("sync: RUnlock of unlocked RWMutex"))
	}
	m.readers--
}

func (s *scheduler) wg(p *value) *wgObj {
	w := s.wgs[p]
	if w == nil {
		w = &wgObj{}
		s.wgs[p] = w
	}
	return w
}
