package interp

// Insertion-ordered map used for every Go map: iteration order is
// deterministic (needed for re-execution) and keys may contain symbolic bytes.

import (
	"fmt"
	"go/types"
	"strings"
	"unsafe"
)

type omap struct {
	kt    types.Type
	keys  []value
	vals  []value
	live  []bool
	n     int
	index map[string]int // canonical encoding of fully concrete keys -> slot
	nsym  int            // number of live slots whose key is not fully concrete
}

func makeMap(kt types.Type, reserve int64) value {
	return &omap{kt: kt, index: map[string]int{}}
}

// keyString gives a canonical string for a fully concrete key; ok=false when symbolic parts exist.
func keyString(sb *strings.Builder, v value) bool {
	switch v := v.(type) {
	case bool, int, int8, int16, int32, int64, uint, uint8, uint16, uint32, uint64, uintptr, float32, float64, complex64, complex128:
		fmt.Fprintf(sb, "%T:%v;", v, v)
	case string:
		fmt.Fprintf(sb, "s%d:%s;", len(v), v)
	case symstr:
		return false
	case sym:
		return false
	case *value:
		fmt.Fprintf(sb, "p%x;", uintptr(unsafe.Pointer(v)))
	case *chanObj:
		fmt.Fprintf(sb, "c%x;", uintptr(unsafe.Pointer(v)))
	case structure:
		sb.WriteString("{")
		for _, f := range v {
			if !keyString(sb, f) {
				return false
			}
		}
		sb.WriteString("}")
	case array:
		sb.WriteString("[")
		for _, f := range v {
			if !keyString(sb, f) {
				return false
			}
		}
		sb.WriteString("]")
	case iface:
		if v.t == nil {
			sb.WriteString("nil;")
		} else {
			sb.WriteString("i(" + v.t.String() + ")")
			if !keyString(sb, v.v) {
				return false
			}
		}
	case *ssa_Function_key:
		fmt.Fprintf(sb, "f%p;", v)
	default:
		panic(unsupported(fmt.Sprintf("map key of dynamic type %T", v)))
	}
	return true
}

type ssa_Function_key struct{}

func (m *omap) find(k value) int {
	var sb strings.Builder
	if keyString(&sb, k) {
		if i, ok := m.index[sb.String()]; ok {
			return i
		}
		if m.nsym == 0 {
			return -1
		}
	}
	// symbolic comparison against every live slot, each a decision
	for i := range m.keys {
		if !m.live[i] {
			continue
		}
		if concBool(equalsV(m.kt, m.keys[i], k)) {
			return i
		}
	}
	return -1
}

func (m *omap) lookup(k value) (value, bool) {
	if m == nil {
		return nil, false
	}
	i := m.find(k)
	if i < 0 {
		return nil, false
	}
	return m.vals[i], true
}

func (m *omap) insert(k, v value) {
	if m == nil {
		panic(rtError("assignment to entry in nil map"))
	}
	if i := m.find(k); i >= 0 {
		m.vals[i] = v
		return
	}
	var sb strings.Builder
	if keyString(&sb, k) {
		m.index[sb.String()] = len(m.keys)
	} else {
		m.nsym++
	}
	m.keys = append(m.keys, k)
	m.vals = append(m.vals, v)
	m.live = append(m.live, true)
	m.n++
}

func (m *omap) delete(k value) {
	if m == nil {
		return
	}
	i := m.find(k)
	if i < 0 {
		return
	}
	var sb strings.Builder
	if keyString(&sb, m.keys[i]) {
		delete(m.index, sb.String())
	} else {
		m.nsym--
	}
	m.live[i] = false
	m.n--
}

func (m *omap) len() int {
	if m == nil {
		return 0
	}
	return m.n
}

func (m *omap) clone() *omap {
	if m == nil {
		return nil
	}
	c := &omap{kt: m.kt, index: map[string]int{}}
	for i := range m.keys {
		if m.live[i] {
			c.insert(m.keys[i], m.vals[i])
		}
	}
	return c
}

func (m *omap) clear() {
	if m == nil {
		return
	}
	m.keys, m.vals, m.live, m.n, m.nsym = nil, nil, nil, 0, 0
	m.index = map[string]int{}
}

// omapIter iterates in insertion order over the slots that existed at the start
// and are still live when reached (Go permits any order; deletions during
// iteration are honoured, insertions during iteration are not visited).
type omapIter struct {
	m   *omap
	pos int
	end int
}

func (it *omapIter) next() tuple {
	for it.m != nil && it.pos < it.end && it.pos < len(it.m.keys) {
		i := it.pos
		it.pos++
		if it.m.live[i] {
			return tuple{true, it.m.keys[i], it.m.vals[i]}
		}
	}
	return tuple{false, nil, nil}
}
