package interp

// Contract model of dkv/bloom.Filter, enabled by verif.Abstract("bloom.Filter"):
// "a key is reported iff it was added". Never denying an added key is the contract the
// real filter is decided against; a false positive for a lookup key is modelled by the
// harness adding that key to the filter (the same trick works natively).
// The real filter is decided against exactly this contract by harness C17_Bloom; table
// harnesses then use the contract instead of a 32 KiB bit array indexed by five hashes.

import (
	"fmt"
	"go/types"
	"strconv"
)

type bloomState struct {
	added [][]value
	words int // length of the real bit array (the encoded size must match the real filter's)
}

var bloomStates = map[*value]*bloomState{}
var bloomTokens []*bloomState

const bloomPkg = "reduction.dev/reduction/dkv/bloom"

func bloomOn() bool { return abstracted["bloom.Filter"] != nil }

func bloomOf(p *value) *bloomState {
	s := bloomStates[p]
	if s == nil {
		s = &bloomState{}
		bloomStates[p] = s
	}
	return s
}

func init() {
	resetHooks = append(resetHooks, func() { bloomStates = map[*value]*bloomState{}; bloomTokens = nil })
	wrap := func(name string, model externalFn) {
		externals[name] = func(fr *frame, args []value) value {
			if !bloomOn() {
				return callInterpreted(fr, args)
			}
			return model(fr, args)
		}
	}
	wrap("(*"+bloomPkg+".Filter).Add", func(fr *frame, args []value) value {
		s := bloomOf(args[0].(*value))
		s.added = append(s.added, append([]value(nil), args[1].([]value)...))
		return nil
	})
	wrap("(*"+bloomPkg+".Filter).MightHave", func(fr *frame, args []value) value {
		s := bloomOf(args[0].(*value))
		q := args[1].([]value)
		// exact membership: reported iff added. False positives of the real filter are
		// injected explicitly by harnesses (they Add the query key), which replays natively.
		b := tFalse
		for _, k := range s.added {
			_, eq := seqCompare(k, q)
			b = tOr(b, eq)
		}
		return fromTerm(b, types.Bool)
	})
	wrap("(*"+bloomPkg+".Filter).Encode", func(fr *frame, args []value) value {
		s := bloomOf(args[0].(*value))
		st := (*args[0].(*value)).(structure)
		if ba, ok := st[0].([]value); ok && len(ba) > 0 {
			s.words = len(ba)
		}
		bloomTokens = append(bloomTokens, s)
		// same encoded size as the real filter: 4 (size) + 4 (hash count) + 8 per word
		tok := strToVals(fmt.Sprintf("BLM%05d", len(bloomTokens)-1))
		for i := 0; i < 8*s.words; i++ {
			tok = append(tok, uint8(0))
		}
		w := args[1].(iface)
		m := findMethod(fr.i, w.t, "Write")
		r := call(fr.i, fr, 0, m, []value{w.v, tok}).(tuple)
		if e := r[1].(iface); e.t != nil {
			panic(targetPanic{v: e})
		}
		return len(tok)
	})
	wrap(bloomPkg+".Decode", func(fr *frame, args []value) value {
		readFull := fr.i.prog.ImportedPackage("io").Func("ReadFull")
		buf := make([]value, 8)
		for i := range buf {
			buf[i] = uint8(0)
		}
		r := call(fr.i, fr, 0, readFull, []value{args[0], buf}).(tuple)
		if e := r[1].(iface); e.t != nil {
			panic(targetPanic{v: e})
		}
		var bs []byte
		for _, x := range buf {
			c, ok := x.(uint8)
			if !ok {
				panic(unsupported("bloom token with symbolic bytes"))
			}
			bs = append(bs, c)
		}
		if string(bs[:3]) != "BLM" {
			panic(rtError("bloom contract model: footer does not hold a filter token"))
		}
		id, err := strconv.Atoi(string(bs[3:]))
		if err != nil || id >= len(bloomTokens) {
			panic(rtError("bloom contract model: bad filter token"))
		}
		src := bloomTokens[id]
		if src.words > 0 {
			pad := make([]value, 8*src.words)
			for i := range pad {
				pad[i] = uint8(0)
			}
			r := call(fr.i, fr, 0, readFull, []value{args[0], pad}).(tuple)
			if e := r[1].(iface); e.t != nil {
				panic(targetPanic{v: e})
			}
		}
		var cell value = structure{[]value(nil), uint32(64 * src.words), int(0)}
		p := &cell
		// the decoded filter knows the same keys (copy: later Adds on one do not affect the other)
		bloomStates[p] = &bloomState{added: append([][]value(nil), src.added...), words: src.words}
		return p
	})
}

// callInterpreted runs the real body of the function whose intrinsic wrapper was entered.
func callInterpreted(fr *frame, args []value) value {
	return runSSA(fr, args)
}
