package interp

// Go semantics of scalar operations over symbolic operands.

import (
	"fmt"
	"go/token"
	"go/types"
)

func symBinop(op token.Token, x, y value) value {
	a := toSym(x)
	if a.k == types.Bool {
		b := toSym(y)
		switch op {
		case token.EQL:
			return fromTerm(tEq(a.t, b.t), types.Bool)
		case token.NEQ:
			return fromTerm(tNot(tEq(a.t, b.t)), types.Bool)
		case token.LAND, token.AND:
			return fromTerm(tAnd(a.t, b.t), types.Bool)
		case token.LOR, token.OR:
			return fromTerm(tOr(a.t, b.t), types.Bool)
		}
		panic(unsupported("bool binop " + op.String()))
	}
	w, signed := kindInfo(a.k)
	if w <= 0 {
		panic(unsupported(fmt.Sprintf("symbolic binop on kind %v", a.k)))
	}
	if op == token.SHL || op == token.SHR {
		b := toSym(y)
		bw, bs := kindInfo(b.k)
		if bs && !b.t.isConst() {
			neg := tCmp("bvslt", b.t, tConst(bw, 0))
			if CurPath.DecideBool(neg) {
				panic(rtError("negative shift amount"))
			}
		}
		cnt := b.t
		switch {
		case bw < w:
			cnt = tZext(w-bw, cnt)
		case bw > w:
			big := tCmp("bvuge", cnt, tConst(bw, uint64(w)))
			cnt = tIte(big, tConst(w, uint64(w)), tExtract(w-1, 0, cnt))
		}
		switch op {
		case token.SHL:
			return fromTerm(tBin("bvshl", a.t, cnt), a.k)
		default:
			if signed {
				return fromTerm(tBin("bvashr", a.t, cnt), a.k)
			}
			return fromTerm(tBin("bvlshr", a.t, cnt), a.k)
		}
	}
	b := toSym(y)
	if bw, _ := kindInfo(b.k); bw != w {
		panic(unsupported(fmt.Sprintf("binop width mismatch %v %v", a.k, b.k)))
	}
	sel := func(s, u string) string {
		if signed {
			return s
		}
		return u
	}
	bv := func(f string) value { return fromTerm(tBin(f, a.t, b.t), a.k) }
	bl := func(f string) value { return fromTerm(tCmp(f, a.t, b.t), types.Bool) }
	switch op {
	case token.ADD:
		return bv("bvadd")
	case token.SUB:
		return bv("bvsub")
	case token.MUL:
		return bv("bvmul")
	case token.QUO, token.REM:
		if !b.t.isConst() {
			if CurPath.DecideBool(tCmp("=", b.t, tConst(w, 0))) {
				panic(rtError("integer divide by zero"))
			}
		} else if b.t.val == 0 {
			panic(rtError("integer divide by zero"))
		}
		if op == token.QUO {
			return bv(sel("bvsdiv", "bvudiv"))
		}
		return bv(sel("bvsrem", "bvurem"))
	case token.AND:
		return bv("bvand")
	case token.OR:
		return bv("bvor")
	case token.XOR:
		return bv("bvxor")
	case token.AND_NOT:
		return fromTerm(tBin("bvand", a.t, tBvNot(b.t)), a.k)
	case token.EQL:
		return bl("=")
	case token.NEQ:
		return fromTerm(tNot(tCmp("=", a.t, b.t)), types.Bool)
	case token.LSS:
		return bl(sel("bvslt", "bvult"))
	case token.LEQ:
		return bl(sel("bvsle", "bvule"))
	case token.GTR:
		return bl(sel("bvsgt", "bvugt"))
	case token.GEQ:
		return bl(sel("bvsge", "bvuge"))
	}
	panic(unsupported("symbolic binop " + op.String()))
}

func symUnop(op token.Token, sx sym) value {
	switch op {
	case token.SUB:
		return fromTerm(tBvNeg(sx.t), sx.k)
	case token.XOR:
		return fromTerm(tBvNot(sx.t), sx.k)
	case token.NOT:
		return fromTerm(tNot(sx.t), types.Bool)
	}
	panic(unsupported("unop on sym: " + op.String()))
}

func symConv(dst types.BasicKind, x sym) value {
	w, _ := kindInfo(dst)
	if w < 0 {
		panic(unsupported(fmt.Sprintf("conversion of symbolic value to kind %v", dst)))
	}
	xw, xs := kindInfo(x.k)
	if w == 0 || xw == 0 {
		if w == 0 && xw == 0 {
			return sym{x.t, dst}
		}
		panic(unsupported("bool/int conversion of sym"))
	}
	t := x.t
	switch {
	case w < xw:
		t = tExtract(w-1, 0, t)
	case w > xw && xs:
		t = tSext(w-xw, t)
	case w > xw:
		t = tZext(w-xw, t)
	}
	return fromTerm(t, dst)
}

// symPtr is the address of base[idx] for a symbolic idx.
type symPtr struct {
	base []value
	idx  sym
}

const maxIteCells = 512

func symIndexGuard(n int, idx sym) {
	w, _ := kindInfo(idx.k)
	if n > 0 && termUB(idx.t) < uint64(n) {
		return // in range for syntactic reasons: no solver call
	}
	inb := tCmp("bvult", idx.t, tConst(w, uint64(n)))
	if !CurPath.DecideBool(inb) {
		panic(rtError(fmt.Sprintf("index out of range [symbolic] with length %d", n)))
	}
}

// symIndexRead reads elems[idx]; the bounds check is a decision (out of range panics in the target).
func symIndexRead(elems []value, idx sym) value {
	n := len(elems)
	symIndexGuard(n, idx)
	if n > maxIteCells {
		c := CurPath.Concretize(idx, 64, "large-array index")
		return elems[asInt64(c)]
	}
	w, _ := kindInfo(idx.k)
	return iteRead(elems, idx.t, w)
}

func iteRead(elems []value, idx *term, w int) value {
	n := len(elems)
	// all cells must be scalars of one kind
	k := types.Invalid
	for _, e := range elems {
		ek := kindOfValue(e)
		if ek == types.Invalid {
			// non-scalar cells: concretise the index
			c := CurPath.Concretize(sym{idx, types.Uint64}, 64, "index into non-scalar array")
			return elems[asInt64(c)]
		}
		k = ek
	}
	// table of constants: one lookup node (composes and folds)
	allConst := true
	for _, e := range elems {
		if isSym(e) {
			allConst = false
			break
		}
	}
	if allConst {
		tab := make([]uint64, n)
		for i, e := range elems {
			tab[i] = toSym(e).t.val
		}
		rw, _ := kindInfo(k)
		return fromTerm(tLut(tab, rw, idx), k)
	}
	res := toSym(elems[n-1]).t
	for i := n - 2; i >= 0; i-- {
		res = tIte(tCmp("=", idx, tConst(w, uint64(i))), toSym(elems[i]).t, res)
	}
	return fromTerm(res, k)
}

func symIndexWrite(sp symPtr, v value) {
	n := len(sp.base)
	symIndexGuard(n, sp.idx)
	w, _ := kindInfo(sp.idx.k)
	if kindOfValue(v) == types.Invalid || n > maxIteCells {
		c := CurPath.Concretize(sp.idx, 64, "store index")
		sp.base[asInt64(c)] = v
		return
	}
	nv := toSym(v)
	for i := 0; i < n; i++ {
		old := toSym(sp.base[i])
		sp.base[i] = fromTerm(tIte(tCmp("=", sp.idx.t, tConst(w, uint64(i))), nv.t, old.t), old.k)
	}
}

// concInt forces an integer value to be concrete (decision over feasible values when symbolic).
func concInt(v value, why string) int64 {
	if s, ok := v.(sym); ok {
		return asInt64(CurPath.Concretize(s, 64, why))
	}
	return asInt64(v)
}

// concBool forces a boolean to be concrete through a branch decision.
func concBool(v value) bool {
	if s, ok := v.(sym); ok {
		return CurPath.DecideBool(s.t)
	}
	return v.(bool)
}
