package interp

// protobuf Marshal/Unmarshal are reflection-driven; modelled as an opaque token that
// stands for a deep copy of the message ("the protobuf round trip is the identity").
// Also: symbolic-string aware versions of a few strings/path helpers.

import (
	"fmt"
	"go/types"
	"path"
	"path/filepath"
	"strings"
)

var protoStore []value // deep copies of marshalled messages (per path)

func init() {
	resetHooks = append(resetHooks, func() { protoStore = nil })
}

func deepCopy(v value, memo map[*value]*value) value {
	switch v := v.(type) {
	case structure:
		c := make(structure, len(v))
		for i := range v {
			c[i] = deepCopy(v[i], memo)
		}
		return c
	case array:
		c := make(array, len(v))
		for i := range v {
			c[i] = deepCopy(v[i], memo)
		}
		return c
	case []value:
		if v == nil {
			return []value(nil)
		}
		c := make([]value, len(v))
		for i := range v {
			c[i] = deepCopy(v[i], memo)
		}
		return c
	case *value:
		if v == nil {
			return v
		}
		if c, ok := memo[v]; ok {
			return c
		}
		n := new(value)
		memo[v] = n
		*n = deepCopy(*v, memo)
		return n
	case iface:
		return iface{t: v.t, v: deepCopy(v.v, memo)}
	case *omap:
		if v == nil {
			return v
		}
		c := &omap{kt: v.kt, index: map[string]int{}}
		for i := range v.keys {
			if v.live[i] {
				c.insert(deepCopy(v.keys[i], memo), deepCopy(v.vals[i], memo))
			}
		}
		return c
	case symstr:
		return v
	case tuple:
		c := make(tuple, len(v))
		for i := range v {
			c[i] = deepCopy(v[i], memo)
		}
		return c
	}
	return v // scalars, strings, syms, funcs, channels
}

const protoMagic = "\x00gosym-pb:"

func protoToken(id int) []value {
	return strToVals(fmt.Sprintf("%s%08d", protoMagic, id))
}

func protoLookup(b []value) (value, bool) {
	if len(b) != len(protoMagic)+8 {
		return nil, false
	}
	var sb strings.Builder
	for _, x := range b {
		c, ok := x.(uint8)
		if !ok {
			return nil, false
		}
		sb.WriteByte(c)
	}
	s := sb.String()
	if !strings.HasPrefix(s, protoMagic) {
		return nil, false
	}
	var id int
	if _, err := fmt.Sscanf(s[len(protoMagic):], "%d", &id); err != nil || id < 0 || id >= len(protoStore) {
		return nil, false
	}
	return protoStore[id], true
}

func init() {
	ext := externals
	marshal := func(fr *frame, args []value) value {
		noteStub("protobuf Marshal/Unmarshal: opaque token for a deep copy of the message (round trip = identity)")
		m := args[len(args)-1].(iface)
		if m.t == nil {
			return tuple{[]value(nil), iface{}}
		}
		p, ok := m.v.(*value)
		if !ok || p == nil {
			return tuple{[]value(nil), iface{}}
		}
		protoStore = append(protoStore, deepCopy(*p, map[*value]*value{}))
		return tuple{protoToken(len(protoStore) - 1), iface{}}
	}
	ext["google.golang.org/protobuf/proto.Marshal"] = marshal
	ext["google.golang.org/protobuf/proto.Unmarshal"] = func(fr *frame, args []value) value {
		noteStub("protobuf Marshal/Unmarshal: opaque token for a deep copy of the message (round trip = identity)")
		b, _ := args[0].([]value)
		m := args[1].(iface)
		if len(b) == 0 {
			// empty input is the empty message
			if pt, ok := m.t.Underlying().(*types.Pointer); ok {
				if p, ok := m.v.(*value); ok && p != nil {
					*p = zero(pt.Elem())
				}
			}
			return iface{}
		}
		stored, ok := protoLookup(b)
		if !ok {
			return mkError(fr, "proto: cannot parse invalid wire-format data")
		}
		p := m.v.(*value)
		*p = deepCopy(stored, map[*value]*value{})
		return iface{}
	}
	ext["google.golang.org/protobuf/proto.Clone"] = func(fr *frame, args []value) value {
		m := args[0].(iface)
		if m.t == nil {
			return m
		}
		return iface{t: m.t, v: deepCopy(m.v, map[*value]*value{})}
	}
	ext["google.golang.org/protobuf/types/known/timestamppb.New"] = nil
	delete(ext, "google.golang.org/protobuf/types/known/timestamppb.New")

	// ---- string helpers that also accept strings with symbolic bytes
	seqOf := func(v value) ([]value, bool) {
		switch v := v.(type) {
		case symstr:
			return []value(v), true
		}
		return nil, false
	}
	lastIndexByte := func(s []value, c byte) int {
		for i := len(s) - 1; i >= 0; i-- {
			if concBool(equalsV(nil, s[i], c)) {
				return i
			}
		}
		return -1
	}
	wrap1 := func(name string, conc func(string) string, symf func([]value) value) {
		ext[name] = func(fr *frame, args []value) value {
			if s, ok := seqOf(args[0]); ok {
				return symf(s)
			}
			return conc(cstr(args[0]))
		}
	}
	base := func(s []value) value {
		// strip trailing slashes
		for len(s) > 0 && concBool(equalsV(nil, s[len(s)-1], uint8('/'))) {
			s = s[:len(s)-1]
		}
		if i := lastIndexByte(s, '/'); i >= 0 {
			s = s[i+1:]
		}
		if len(s) == 0 {
			return "."
		}
		return mkString(s)
	}
	extf := func(s []value) value {
		for i := len(s) - 1; i >= 0; i-- {
			if concBool(equalsV(nil, s[i], uint8('/'))) {
				break
			}
			if concBool(equalsV(nil, s[i], uint8('.'))) {
				return mkString(s[i:])
			}
		}
		return ""
	}
	joinf := func(clean func(string) string) externalFn {
		return func(fr *frame, args []value) value {
			parts := args[0].([]value)
			anySym := false
			for _, p := range parts {
				if _, ok := p.(symstr); ok {
					anySym = true
				}
			}
			if !anySym {
				return clean(strings.Join(nonEmpty(strs(args[0])), "/"))
			}
			noteStub("path.Join with a symbolic component: joined with '/', the symbolic component is not cleaned")
			var out []value
			first := true
			for _, p := range parts {
				seq := asByteSeq(p)
				if len(seq) == 0 {
					continue
				}
				if !first {
					out = append(out, uint8('/'))
				}
				first = false
				out = append(out, seq...)
			}
			return mkString(out)
		}
	}
	ext["path/filepath.Join"] = joinf(func(s string) string {
		if s == "" {
			return ""
		}
		return filepath.Clean(s)
	})
	ext["path.Join"] = joinf(func(s string) string {
		if s == "" {
			return ""
		}
		return path.Clean(s)
	})
	wrap1("path/filepath.Base", filepath.Base, base)
	wrap1("path.Base", path.Base, base)
	wrap1("path/filepath.Ext", filepath.Ext, extf)
	wrap1("path.Ext", path.Ext, extf)
	ext["strings.HasSuffix"] = func(fr *frame, args []value) value {
		a, b := asByteSeq(args[0]), asByteSeq(args[1])
		if len(b) > len(a) {
			return false
		}
		_, eq := seqCompare(a[len(a)-len(b):], b)
		return fromTerm(eq, types.Bool)
	}
	ext["internal/stringslite.HasSuffix"] = ext["strings.HasSuffix"]
	ext["strings.TrimSuffix"] = func(fr *frame, args []value) value {
		a, b := asByteSeq(args[0]), asByteSeq(args[1])
		if len(b) <= len(a) {
			_, eq := seqCompare(a[len(a)-len(b):], b)
			if concBool(fromTerm(eq, types.Bool)) {
				return mkString(a[:len(a)-len(b)])
			}
		}
		return args[0]
	}
	ext["strings.TrimPrefix"] = func(fr *frame, args []value) value {
		a, b := asByteSeq(args[0]), asByteSeq(args[1])
		if concBool(fromTerm(seqHasPrefix(a, b), types.Bool)) {
			return mkString(a[len(b):])
		}
		return args[0]
	}
	ext["strings.CutPrefix"] = func(fr *frame, args []value) value {
		a, b := asByteSeq(args[0]), asByteSeq(args[1])
		if concBool(fromTerm(seqHasPrefix(a, b), types.Bool)) {
			return tuple{mkString(a[len(b):]), true}
		}
		return tuple{args[0], false}
	}
	ext["internal/stringslite.TrimPrefix"] = ext["strings.TrimPrefix"]
	ext["internal/stringslite.TrimSuffix"] = ext["strings.TrimSuffix"]
	ext["internal/stringslite.CutPrefix"] = ext["strings.CutPrefix"]
}

func nonEmpty(ss []string) []string {
	var out []string
	for _, s := range ss {
		if s != "" {
			out = append(out, s)
		}
	}
	return out
}

// encoding/json for the repository's own document types: an opaque token standing for a deep
// copy of the marshalled value ("the JSON round trip is the identity on these documents";
// not true for strings that are not valid UTF-8 — outside every claim).
type jsonDoc struct {
	t types.Type
	v value
}

var jsonStore []jsonDoc

const jsonMagic = "{\"gosym-json\":"

func init() {
	resetHooks = append(resetHooks, func() { jsonStore = nil })
	externals["encoding/json.Marshal"] = func(fr *frame, args []value) value {
		noteStub("encoding/json Marshal/Unmarshal: opaque token for a deep copy of the document (round trip = identity)")
		d := args[0].(iface)
		jsonStore = append(jsonStore, jsonDoc{d.t, deepCopy(d.v, map[*value]*value{})})
		return tuple{strToVals(fmt.Sprintf("%s%08d}", jsonMagic, len(jsonStore)-1)), iface{}}
	}
	externals["encoding/json.Unmarshal"] = func(fr *frame, args []value) value {
		noteStub("encoding/json Marshal/Unmarshal: opaque token for a deep copy of the document (round trip = identity)")
		b, _ := args[0].([]value)
		var sb strings.Builder
		for _, x := range b {
			c, ok := x.(uint8)
			if !ok {
				panic(unsupported("json.Unmarshal of symbolic bytes"))
			}
			sb.WriteByte(c)
		}
		s := sb.String()
		if !strings.HasPrefix(s, jsonMagic) {
			return mkError(fr, "json: cannot unmarshal (not a document written by this program)")
		}
		var id int
		fmt.Sscanf(s[len(jsonMagic):], "%d", &id)
		if id < 0 || id >= len(jsonStore) {
			return mkError(fr, "json: bad document token")
		}
		doc := jsonStore[id]
		target := args[1].(iface)
		pt, ok := target.t.Underlying().(*types.Pointer)
		if !ok {
			return mkError(fr, "json: Unmarshal(non-pointer)")
		}
		src := doc.v
		st := doc.t
		// the marshalled value may itself have been a pointer to the document
		if sp, ok := st.Underlying().(*types.Pointer); ok {
			st = sp.Elem()
			src = *(src.(*value))
		}
		if !types.Identical(pt.Elem(), st) {
			panic(unsupported(fmt.Sprintf("json round trip between different types %s and %s", st, pt.Elem())))
		}
		*(target.v.(*value)) = deepCopy(src, map[*value]*value{})
		return iface{}
	}
}
