package interp

// The verif.* primitives as seen by the symbolic interpreter.

import (
	"fmt"
	"go/types"
	"strings"

	"golang.org/x/tools/go/ssa"
)

func init() {
	pk := VerifPkg + "."
	ext := externals
	mk := func(k types.BasicKind, kind string) externalFn {
		return func(fr *frame, args []value) value {
			return CurPath.NewInput(cstr(args[0]), k, kind)
		}
	}
	ext[pk+"Symbolic"] = func(fr *frame, args []value) value { return true }
	ext[pk+"Bool"] = mk(types.Bool, "bool")
	ext[pk+"Byte"] = mk(types.Uint8, "byte")
	ext[pk+"U16"] = mk(types.Uint16, "u16")
	ext[pk+"U32"] = mk(types.Uint32, "u32")
	ext[pk+"U64"] = mk(types.Uint64, "u64")
	ext[pk+"Int"] = mk(types.Int, "int")
	ext[pk+"I64"] = mk(types.Int64, "i64")
	ext[pk+"I32"] = mk(types.Int32, "i32")
	ext[pk+"Choose"] = func(fr *frame, args []value) value {
		n := int(concInt(args[1], "Choose n"))
		return CurPath.Choose(cstr(args[0]), "choose", n)
	}
	ext[pk+"CrashPoint"] = func(fr *frame, args []value) value {
		return CurPath.Choose(cstr(args[0]), "crash", 2) == 1
	}
	ext[pk+"Assume"] = func(fr *frame, args []value) value {
		CurPath.Assume(args[0])
		return nil
	}
	ext[pk+"Assert"] = func(fr *frame, args []value) value {
		CurPath.Assert(args[0], cstr(args[1]), "", nil, callerPos(fr))
		return nil
	}
	ext[pk+"AssertKnown"] = func(fr *frame, args []value) value {
		CurPath.Assert(args[0], cstr(args[1]), cstr(args[2]), args[3], callerPos(fr))
		return nil
	}
	ext[pk+"Reached"] = func(fr *frame, args []value) value {
		CurPath.Reached = true
		return nil
	}
	b2 := func(f func(a, b *term) *term) externalFn {
		return func(fr *frame, args []value) value {
			return fromTerm(f(toSym(args[0]).t, toSym(args[1]).t), types.Bool)
		}
	}
	ext[pk+"And"] = b2(tAnd)
	ext[pk+"Or"] = b2(tOr)
	ext[pk+"Implies"] = b2(func(a, b *term) *term { return tOr(tNot(a), b) })
	ext[pk+"Iff"] = b2(tEq)
	ite := func(fr *frame, args []value) value {
		c := toSym(args[0])
		a, b := toSym(args[1]), toSym(args[2])
		return fromTerm(tIte(c.t, a.t, b.t), a.k)
	}
	ext[pk+"IteInt"] = ite
	ext[pk+"IteByte"] = ite
	ext[pk+"IteU64"] = ite
	ext[pk+"IteI64"] = ite
	ext[pk+"Concretize"] = func(fr *frame, args []value) value {
		if s, ok := args[0].(sym); ok {
			return CurPath.Concretize(s, 64, "verif.Concretize")
		}
		return args[0]
	}
	ext[pk+"Yield"] = func(fr *frame, args []value) value { Sched.yield(); return nil }
	ext["reduction.dev/reduction/util/verifhook.Point"] = func(fr *frame, args []value) value {
		name := cstr(args[0])
		hookArrivals[name]++
		me := hookArrivals[name]
		Sched.hookPoint(name)
		hookPasses[name] = append(hookPasses[name], me)
		return nil
	}
	ext[pk+"ScheduleMode"] = func(fr *frame, args []value) value {
		// 0 = deterministic, 1 = decisions at hook/yield points only, 2 = every synchronisation operation
		m := args[0].(int)
		if Sched.hooksOnly && m != 1 {
			// leaving hook-wait mode: nobody stays parked at a hook point
			for Sched.releaseHookWaiter() {
			}
		}
		Sched.explore = m > 0
		Sched.hooksOnly = m == 1
		Sched.preemptBound = args[1].(int)
		return nil
	}
	ext[pk+"Quiesce"] = func(fr *frame, args []value) value { Sched.quiesce(); return nil }
	ext[pk+"ExploreSchedules"] = func(fr *frame, args []value) value {
		Sched.explore = args[0].(bool)
		Sched.preemptBound = args[1].(int)
		return nil
	}
	ext[pk+"ExploreSelect"] = func(fr *frame, args []value) value {
		Sched.exploreSelect = args[0].(bool)
		return nil
	}
	ext[pk+"Note"] = func(fr *frame, args []value) value {
		CurPath.Notes = append(CurPath.Notes, cstr(args[0]))
		return nil
	}
	ext[pk+"SetClock"] = func(fr *frame, args []value) value {
		Sched.now = concInt(args[0], "SetClock")
		return nil
	}
	ext[pk+"FixedRand"] = func(fr *frame, args []value) value {
		randFixed = nil
		for _, v := range args[0].([]value) {
			randFixed = append(randFixed, v.(uint32))
		}
		randPos = 0
		return nil
	}
	ext[pk+"RunCleanups"] = func(fr *frame, args []value) value {
		runCleanups(fr)
		return nil
	}
	// math/rand: fresh symbolic values unless FixedRand was called
	rnd := func(k types.BasicKind, kind string, conv func(uint32) value) externalFn {
		return func(fr *frame, args []value) value {
			if randFixed != nil {
				v := randFixed[randPos%len(randFixed)]
				randPos++
				return conv(v)
			}
			noteStub("math/rand (fresh symbolic value per call)")
			return CurPath.NewInput("rand", k, kind)
		}
	}
	ext["math/rand/v2.Uint32"] = rnd(types.Uint32, "u32", func(v uint32) value { return v })
	ext["math/rand.Uint32"] = ext["math/rand/v2.Uint32"]
	ext["math/rand/v2.Uint64"] = rnd(types.Uint64, "u64", func(v uint32) value { return uint64(v) })
	ext["math/rand.Uint64"] = ext["math/rand/v2.Uint64"]
	resetHooks = append(resetHooks, func() {
		randFixed = nil
		randPos = 0
		hookArrivals = map[string]int{}
		hookPasses = map[string][]int{}
	})
}

// hook-point bookkeeping for native replays: the order in which arrivals passed each point
var hookArrivals = map[string]int{}
var hookPasses = map[string][]int{}

var randFixed []uint32
var randPos int

func callerPos(fr *frame) string {
	if fr == nil || fr.caller == nil {
		return ""
	}
	return fr.caller.fn.String()
}


// Params are the tier parameters of the running harness (verif.Param).
var Params map[string]int

func init() {
	externals[VerifPkg+".Param"] = func(fr *frame, args []value) value {
		if v, ok := Params[cstr(args[0])]; ok {
			return v
		}
		return args[1]
	}
}

// ---- function abstraction (uninterpreted-function summaries)
//
// verif.Abstract("pkg.Func") makes every later call of that function return a
// fresh symbolic value that is consistent for identical arguments. This is a
// sound over-approximation for validity (anything proved for an arbitrary
// function value holds for the real one); counterexamples that depend on it do
// not replay natively and are then reported as inconclusive, never as alarms.

var abstracted = map[string]map[string]value{}

type ufEntry struct {
	args []value
	res  sym
}

var ufEntries = map[string][]ufEntry{}

func init() {
	externals[VerifPkg+".Abstract"] = func(fr *frame, args []value) value {
		name := cstr(args[0])
		if abstracted[name] == nil {
			abstracted[name] = map[string]value{}
		}
		noteStub("abstracted as an uninterpreted function: " + name)
		return nil
	}
	resetHooks = append(resetHooks, func() { abstracted = map[string]map[string]value{}; ufEntries = map[string][]ufEntry{} })
}

func argKey(sb *strings.Builder, v value) {
	switch v := v.(type) {
	case sym:
		if v.t.isConst() {
			fmt.Fprintf(sb, "c%d/%d,", v.t.w, v.t.val)
		} else {
			fmt.Fprintf(sb, "t%d,", v.t.id)
		}
	case []value:
		sb.WriteString("[")
		for _, e := range v {
			argKey(sb, e)
		}
		sb.WriteString("]")
	case string:
		fmt.Fprintf(sb, "%q,", v)
	case symstr:
		argKey(sb, []value(v))
	default:
		if k := kindOfValue(v); k != types.Invalid {
			s := toSym(v)
			fmt.Fprintf(sb, "c%d/%d,", s.t.w, s.t.val)
			return
		}
		panic(unsupported(fmt.Sprintf("abstracted function with argument of type %T", v)))
	}
}

// callAbstract returns (result, true) when fn is abstracted.
func callAbstract(fn *ssa.Function, args []value) (value, bool) {
	if len(abstracted) == 0 {
		return nil, false
	}
	memo := abstracted[fn.String()]
	if memo == nil {
		return nil, false
	}
	var sb strings.Builder
	for _, a := range args {
		argKey(&sb, a)
	}
	k := sb.String()
	if r, ok := memo[k]; ok {
		return r, true
	}
	res := fn.Signature.Results()
	if res.Len() != 1 {
		panic(unsupported("abstracted function must have one result"))
	}
	b, ok := res.At(0).Type().Underlying().(*types.Basic)
	if !ok {
		panic(unsupported("abstracted function must return a scalar"))
	}
	w, _ := kindInfo(b.Kind())
	if w < 0 {
		panic(unsupported("abstracted function must return an integer or bool"))
	}
	t := CurPath.freshVar("uf:"+fn.Name(), w)
	CurPath.S.define(t)
	rs := sym{t, b.Kind()}
	// functional congruence with earlier applications: equal arguments give equal results
	for _, e := range ufEntries[fn.String()] {
		if eq, ok := argsEqual(e.args, args); ok && !eq.isFalse() {
			CurPath.addPC(tOr(tNot(eq), tEq(e.res.t, rs.t)))
		}
	}
	ufEntries[fn.String()] = append(ufEntries[fn.String()], ufEntry{append([]value(nil), args...), rs})
	r := value(rs)
	memo[k] = r
	return r, true
}

// argsEqual builds the term "a and b are equal argument tuples" (ok=false when shapes differ).
func argsEqual(a, b []value) (*term, bool) {
	if len(a) != len(b) {
		return nil, false
	}
	r := tTrue
	for i := range a {
		switch x := a[i].(type) {
		case []value:
			y, ok := b[i].([]value)
			if !ok || len(x) != len(y) {
				return tFalse, true
			}
			e, ok := argsEqual(x, y)
			if !ok {
				return nil, false
			}
			r = tAnd(r, e)
		case string, symstr:
			if !isStringLike(b[i]) {
				return nil, false
			}
			_, eq := seqCompare(asByteSeq(x), asByteSeq(b[i]))
			r = tAnd(r, eq)
		default:
			if kindOfValue(x) == types.Invalid || kindOfValue(b[i]) == types.Invalid {
				return nil, false
			}
			r = tAnd(r, tEq(toSym(x).t, toSym(b[i]).t))
		}
	}
	return r, true
}
