// gosym: bounded symbolic execution of reduction's real go/ssa, decided by SMT.
//
//	gosym check  -p C19 -tier quick        run every harness of a property, write evidence, exit 0/1
//	gosym run    -harness NAME [-prefix 1,0,2] [-trace]   run one path in-process (debugging)
//	gosym worker -harness NAME -tier T     path worker (JSON lines on stdin/stdout)
//	gosym replay <replay.json>             native replay of a recorded counterexample
package main

import (
	"bufio"
	"encoding/json"
	"flag"
	"fmt"
	"os"
	"os/exec"
	"path/filepath"
	"regexp"
	"runtime"
	"runtime/debug"
	"runtime/pprof"
	"sort"
	"strconv"
	"strings"
	"sync"
	"time"

	"golang.org/x/tools/go/packages"
	"golang.org/x/tools/go/ssa"
	"golang.org/x/tools/go/ssa/ssautil"

	"gosym/interp"
)

var (
	verifDir = envOr("VERIF_DIR", "/verif")
	repoDir  = envOr("VERIF_REPO", "/repo")
)

func envOr(k, d string) string {
	if v := os.Getenv(k); v != "" {
		return v
	}
	return d
}

// ---------------------------------------------------------------- registry

type TierCfg struct {
	Params       map[string]int `json:"params,omitempty"`
	MaxPaths     int            `json:"max_paths,omitempty"`
	MaxSteps     int64          `json:"max_steps,omitempty"`
	MaxDecisions int            `json:"max_decisions,omitempty"`
	TimeoutS     int            `json:"timeout_s,omitempty"`
	SolverMs     int            `json:"solver_timeout_ms,omitempty"`
	Skip         bool           `json:"skip,omitempty"`
}

type Harness struct {
	Name           string            `json:"name"`
	Property       string            `json:"property"`
	Pkg            string            `json:"pkg"`            // directory relative to the repo root ("" = own package zz_harness/<name>)
	File           string            `json:"file"`           // under /verif/harness
	Deps           []string          `json:"deps,omitempty"` // further harness files (shared helpers) for the same package
	Func           string            `json:"func"`
	Solver         string            `json:"solver,omitempty"` // "z3-new" (default) or "cvc5-int"
	Quick          TierCfg           `json:"quick"`
	Thorough       TierCfg           `json:"thorough"`
	Bounds         map[string]string `json:"bounds,omitempty"`          // human-readable bounds for the evidence
	Outside        []string          `json:"outside,omitempty"`         // what lies outside the claim
	Stubs          []string          `json:"stubs,omitempty"`           // declared stubs/assumptions
	Anchors        []string          `json:"anchors,omitempty"`         // repo functions this harness is meant to execute
	NoReplay       bool              `json:"no_replay,omitempty"`       // schedule-dependent: native replay not deterministic
	Tags           []string          `json:"tags,omitempty"`            // extra build tags for loading (e.g. verif: hooks that are only settable with the tag)
	ReplayAttempts int               `json:"replay_attempts,omitempty"` // native replays to run (any failing run reproduces); for runtime-random choices
}

func loadRegistry() []Harness {
	b, err := os.ReadFile(filepath.Join(verifDir, "harness", "registry.json"))
	if err != nil {
		fatal("registry: %v", err)
	}
	var hs []Harness
	if err := json.Unmarshal(b, &hs); err != nil {
		fatal("registry: %v", err)
	}
	return hs
}

func findHarness(name string) Harness {
	for _, h := range loadRegistry() {
		if h.Name == name {
			return h
		}
	}
	fatal("no harness %q in registry", name)
	return Harness{}
}

func (h Harness) tier(t string) TierCfg {
	if t == "thorough" {
		c := h.Thorough
		if c.Params == nil {
			c.Params = h.Quick.Params
		}
		return c
	}
	return h.Quick
}

func fatal(f string, a ...any) {
	fmt.Fprintf(os.Stderr, "gosym: "+f+"\n", a...)
	os.Exit(2)
}

// ---------------------------------------------------------------- known findings

type Finding struct {
	Status   string `json:"status"` // "known" | "fixed"
	Property string `json:"property"`
	ID       string `json:"id"`
	Harness  string `json:"harness,omitempty"`
	Assert   string `json:"assert,omitempty"`
	Commit   string `json:"commit,omitempty"`
	What     string `json:"what"`
}

func loadFindings() []Finding {
	f, err := os.Open(filepath.Join(verifDir, "KNOWN_FINDINGS.jsonl"))
	if err != nil {
		return nil
	}
	defer f.Close()
	var out []Finding
	sc := bufio.NewScanner(f)
	sc.Buffer(make([]byte, 1<<20), 1<<20)
	for sc.Scan() {
		line := strings.TrimSpace(sc.Text())
		if line == "" || strings.HasPrefix(line, "#") {
			continue
		}
		var fd Finding
		if json.Unmarshal([]byte(line), &fd) == nil {
			out = append(out, fd)
		}
	}
	return out
}

// ---------------------------------------------------------------- program loading

var pbFiles = []string{
	"proto/workerpb/worker.proto", "proto/jobpb/job.proto", "proto/e2epb/e2e.proto",
	"proto/snapshotpb/snapshot.proto", "connectors/kafka/kafkapb/kafka.proto", "connectors/kinesis/kinesispb/kinesis.proto",
}

// genOverlay regenerates the protobuf code from /repo's .proto files and returns
// overlay path -> real file for: generated pb code, the verif package, the harness file.
func genOverlay(tmp string, hs []Harness) map[string]string {
	ov := map[string]string{}
	pbOut := filepath.Join(tmp, "pb")
	os.MkdirAll(pbOut, 0o755)
	var protos []string
	filepath.Walk(repoDir, func(p string, info os.FileInfo, err error) error {
		if err == nil && !info.IsDir() && strings.HasSuffix(p, ".proto") {
			rel, _ := filepath.Rel(repoDir, p)
			protos = append(protos, rel)
		}
		if err == nil && info.IsDir() && info.Name() == ".git" {
			return filepath.SkipDir
		}
		return nil
	})
	sort.Strings(protos)
	args := append([]string{repoDir, pbOut, filepath.Join(verifDir, "bin")}, protos...)
	cmd := exec.Command(filepath.Join(verifDir, "bin", "pbgen"), args...)
	if out, err := cmd.CombinedOutput(); err != nil {
		fatal("pbgen failed: %v\n%s", err, out)
	}
	filepath.Walk(pbOut, func(p string, info os.FileInfo, err error) error {
		if err == nil && !info.IsDir() {
			rel, _ := filepath.Rel(pbOut, p)
			target := filepath.Join(repoDir, rel)
			if _, err := os.Stat(target); err != nil { // never shadow a file the repo has
				ov[target] = p
			}
		}
		return nil
	})
	ov[filepath.Join(repoDir, "zz_verif", "verif.go")] = filepath.Join(verifDir, "harness", "verif", "verif.go")
	ov[filepath.Join(repoDir, "zz_verif", "verif_hooks.go")] = filepath.Join(verifDir, "harness", "verif", "verif_hooks.go")
	for _, h := range hs {
		ov[harnessTarget(h)] = filepath.Join(verifDir, "harness", h.File)
		for _, d := range h.Deps {
			base := strings.TrimSuffix(filepath.Base(d), ".go")
			ov[filepath.Join(repoDir, harnessPkgDir(h), "zz_verif_"+base+".go")] = filepath.Join(verifDir, "harness", d)
		}
	}
	return ov
}

func harnessPkgDir(h Harness) string {
	if h.Pkg == "" {
		return filepath.Join("zz_harness", strings.ToLower(h.Name))
	}
	return h.Pkg
}

func harnessTarget(h Harness) string {
	base := strings.TrimSuffix(filepath.Base(h.File), ".go")
	return filepath.Join(repoDir, harnessPkgDir(h), "zz_verif_"+base+".go")
}

func goEnv() []string {
	env := []string{}
	for _, e := range os.Environ() {
		if strings.HasPrefix(e, "GOFLAGS=") || strings.HasPrefix(e, "GOPROXY=") || strings.HasPrefix(e, "GOSUMDB=") || strings.HasPrefix(e, "GOTOOLCHAIN=") {
			continue
		}
		env = append(env, e)
	}
	return append(env, "GOFLAGS=-mod=mod", "GOPROXY=off")
}

type loaded struct {
	prog *ssa.Program
	pkgs map[string]*ssa.Package // by directory relative to the repo
}

func loadProgram(tmp string, hs []Harness) *loaded {
	ov := genOverlay(tmp, hs)
	overlay := map[string][]byte{}
	for k, v := range ov {
		b, err := os.ReadFile(v)
		if err != nil {
			fatal("overlay %s: %v", v, err)
		}
		overlay[k] = b
	}
	// math_big_pure_go: math/big's arithmetic kernels have pure Go bodies instead of assembly stubs
	tags := "math_big_pure_go"
	for _, h := range hs {
		for _, t := range h.Tags {
			if !strings.Contains(","+tags+",", ","+t+",") {
				tags += "," + t
			}
		}
	}
	cfg := &packages.Config{Mode: packages.LoadAllSyntax, Dir: repoDir, Overlay: overlay, Env: goEnv(), BuildFlags: []string{"-tags=" + tags}}
	seen := map[string]bool{}
	var pats []string
	for _, h := range hs {
		d := harnessPkgDir(h)
		if !seen[d] {
			seen[d] = true
			pats = append(pats, "./"+d)
		}
	}
	pkgs, err := packages.Load(cfg, pats...)
	if err != nil {
		fatal("load: %v", err)
	}
	if packages.PrintErrors(pkgs) > 0 {
		fatal("load: packages have errors")
	}
	prog, spkgs := ssautil.AllPackages(pkgs, ssa.InstantiateGenerics)
	prog.Build()
	l := &loaded{prog: prog, pkgs: map[string]*ssa.Package{}}
	for i, p := range pkgs {
		rel := strings.TrimPrefix(p.PkgPath, "reduction.dev/reduction")
		rel = strings.TrimPrefix(rel, "/")
		l.pkgs[rel] = spkgs[i]
	}
	interp.InitAllow = func(p string) bool {
		if strings.HasPrefix(p, "reduction.dev/reduction") {
			return !strings.HasSuffix(p, "pb") && !strings.HasSuffix(p, "connect")
		}
		switch p {
		case "io", "github.com/google/btree", "encoding/binary", "bytes", "encoding/base64", "context",
			"golang.org/x/sync/errgroup", "io/fs", "math", "math/bits", "strings", "sort", "slices", "maps", "cmp", "iter",
			"unicode/utf8", "time", "container/heap", "container/list", "path", "strconv", "math/big":
			return true
		}
		return false
	}
	interp.StubPkgs["github.com/VictoriaMetrics/metrics"] = true
	return l
}

// ---------------------------------------------------------------- worker

type workReq struct {
	Prefix []int64 `json:"prefix"`
	Quit   bool    `json:"quit,omitempty"`
}

func solverFor(h Harness) (string, []string) {
	switch h.Solver {
	case "cvc5-int":
		return "cvc5", []string{"--solve-bv-as-int=sum"}
	case "cvc5":
		return "cvc5", nil
	case "z3":
		return "z3", nil
	}
	if s := os.Getenv("GOSYM_SOLVER"); s != "" {
		return s, nil
	}
	return "z3-new", nil
}

func newEngine(l *loaded, h Harness, tc TierCfg) *interp.Engine {
	bin, extra := solverFor(h)
	to := 10000
	if tc.SolverMs > 0 {
		to = tc.SolverMs
	}
	e := interp.NewEngine(l.prog, "", 0)
	s := &interp.Solver{Bin: bin, Args: extra, TimeoutMs: to}
	s.Start()
	e.S = s
	if tc.MaxSteps > 0 {
		e.MaxSteps = tc.MaxSteps
	}
	if tc.MaxDecisions > 0 {
		e.MaxDecisions = tc.MaxDecisions
	}
	e.Known = map[string]bool{}
	for _, f := range loadFindings() {
		if f.Status == "known" {
			e.Known[f.ID] = true
		}
	}
	interp.Params = tc.Params
	return e
}

func cmdWorker(args []string) {
	fs := flag.NewFlagSet("worker", flag.ExitOnError)
	name := fs.String("harness", "", "")
	tier := fs.String("tier", "quick", "")
	witness := fs.Bool("witness", true, "")
	fs.Parse(args)
	h := findHarness(*name)
	tmp, _ := os.MkdirTemp("", "gosym-w")
	defer os.RemoveAll(tmp)
	l := loadProgram(tmp, []Harness{h})
	e := newEngine(l, h, h.tier(*tier))
	e.Witness = *witness
	pkg := l.pkgs[harnessPkgDir(h)]
	in := bufio.NewReaderSize(os.Stdin, 1<<20)
	out := bufio.NewWriter(os.Stdout)
	fmt.Fprintln(out, `{"ready":true}`)
	out.Flush()
	for {
		line, err := in.ReadBytes('\n')
		if err != nil {
			break
		}
		var rq workReq
		if json.Unmarshal(line, &rq) != nil || rq.Quit {
			break
		}
		res := e.RunPath(pkg, h.Func, rq.Prefix)
		b, _ := json.Marshal(res)
		out.Write(b)
		out.WriteByte('\n')
		out.Flush()
	}
	e.S.Close()
}

// ---------------------------------------------------------------- run (debug)

func cmdRun(args []string) {
	fs := flag.NewFlagSet("run", flag.ExitOnError)
	name := fs.String("harness", "", "")
	tier := fs.String("tier", "quick", "")
	prefix := fs.String("prefix", "", "comma separated decisions")
	trace := fs.Bool("trace", false, "")
	all := fs.Bool("all", false, "explore all paths in-process")
	smtlog := fs.String("smtlog", "", "")
	cpuprof := fs.String("cpuprofile", "", "")
	maxp := fs.Int("maxpaths", 0, "")
	fs.Parse(args)
	if *cpuprof != "" {
		f, _ := os.Create(*cpuprof)
		pprof.StartCPUProfile(f)
		defer pprof.StopCPUProfile()
	}
	h := findHarness(*name)
	tmp, _ := os.MkdirTemp("", "gosym-r")
	defer os.RemoveAll(tmp)
	t0 := time.Now()
	l := loadProgram(tmp, []Harness{h})
	fmt.Fprintf(os.Stderr, "loaded in %v\n", time.Since(t0))
	e := newEngine(l, h, h.tier(*tier))
	e.Trace = *trace
	e.Witness = true
	if *smtlog != "" {
		f, _ := os.Create(*smtlog)
		e.S.Log = f
	}
	pkg := l.pkgs[harnessPkgDir(h)]
	var pre []int64
	if *prefix != "" {
		for _, s := range strings.Split(*prefix, ",") {
			v, _ := strconv.ParseInt(strings.TrimSpace(s), 10, 64)
			pre = append(pre, v)
		}
	}
	work := [][]int64{pre}
	n := 0
	for len(work) > 0 {
		p := work[len(work)-1]
		work = work[:len(work)-1]
		res := e.RunPath(pkg, h.Func, p)
		n++
		res.Funcs = nil
		b, _ := json.Marshal(res)
		fmt.Println(string(b))
		if *all {
			work = append(work, res.Pending...)
		}
		if n%100 == 0 && os.Getenv("GOSYM_MEM") != "" {
			var ms runtime.MemStats
			runtime.ReadMemStats(&ms)
			fmt.Fprintf(os.Stderr, "paths=%d goroutines=%d heapAlloc=%dMB sys=%dMB\n", n, runtime.NumGoroutine(), ms.HeapAlloc>>20, ms.Sys>>20)
		}
		if *maxp > 0 && n >= *maxp {
			break
		}
	}
	fmt.Fprintf(os.Stderr, "%d paths, %d queries, solver %.2fs, total %v\n", n, e.S.Queries, float64(e.S.SolverNs)/1e9, time.Since(t0))
	e.S.Close()
}

// ---------------------------------------------------------------- check (coordinator)

type harnessReport struct {
	Name          string            `json:"name"`
	Package       string            `json:"package"`
	Func          string            `json:"func"`
	Bounds        map[string]string `json:"bounds,omitempty"`
	Params        map[string]int    `json:"params,omitempty"`
	Outside       []string          `json:"outside_claim,omitempty"`
	DeclaredStubs []string          `json:"declared_stubs,omitempty"`
	StubsHit      []string          `json:"stubs_hit,omitempty"`
	Paths         int               `json:"paths"`
	PathsDone     int               `json:"paths_completed"`
	Infeasible    int               `json:"paths_infeasible"`
	Reached       int               `json:"paths_reaching_end"`
	Inconclusive  map[string]int    `json:"inconclusive,omitempty"`
	InconclMsgs   []string          `json:"inconclusive_samples,omitempty"`
	Obligations   int               `json:"obligations"`
	Discharged    int               `json:"discharged"`
	SolverDecided int               `json:"discharged_by_solver"`
	Violated      int               `json:"violated"`
	Known         int               `json:"known_finding_hits"`
	Unknown       int               `json:"unknown"`
	Queries       int               `json:"queries"`
	SolverS       float64           `json:"solver_s"`
	WallS         float64           `json:"wall_s"`
	Steps         int64             `json:"interpreter_steps"`
	SymBranches   int               `json:"symbolic_branch_decisions"`
	Funcs         []string          `json:"functions_encoded"`
	AnchorsMissed []string          `json:"anchors_not_executed,omitempty"`
	Solver        string            `json:"solver"`
	Witness       []interp.InputRec `json:"vacuity_witness,omitempty"`
	Samples       []map[string]any  `json:"samples,omitempty"`
	Exhausted     bool              `json:"work_list_exhausted"`
	Workers       int               `json:"workers"`
	distinctPC    map[string]bool
	violations    []violation
	knownHits     []violation
}

type violation struct {
	Harness string
	Ob      interp.Obligation
}

type worker struct {
	cmd  *exec.Cmd
	in   *bufio.Writer
	out  *bufio.Reader
	busy bool
}

func startWorker(h Harness, tier string) (*worker, error) {
	self, _ := os.Executable()
	c := exec.Command(self, "worker", "-harness", h.Name, "-tier", tier)
	c.Stderr = os.Stderr
	if d := os.Getenv("GOSYM_WORKER_LOG"); d != "" {
		os.MkdirAll(d, 0o755)
		if f, err := os.CreateTemp(d, "worker-*.log"); err == nil {
			c.Stderr = f
		}
	}
	inp, _ := c.StdinPipe()
	outp, _ := c.StdoutPipe()
	if err := c.Start(); err != nil {
		return nil, err
	}
	w := &worker{cmd: c, in: bufio.NewWriter(inp), out: bufio.NewReaderSize(outp, 1<<20)}
	line, err := w.out.ReadString('\n')
	if err != nil || !strings.Contains(line, "ready") {
		c.Process.Kill()
		c.Wait()
		return nil, fmt.Errorf("worker did not start: %v %s", err, line)
	}
	return w, nil
}

func explore(h Harness, tier string, nworkers int) *harnessReport {
	tc := h.tier(tier)
	rep := &harnessReport{Name: h.Name, Package: harnessPkgDir(h), Func: h.Func, Bounds: h.Bounds, Params: tc.Params,
		Outside: h.Outside, DeclaredStubs: h.Stubs, Inconclusive: map[string]int{}, distinctPC: map[string]bool{}}
	bin, extra := solverFor(h)
	rep.Solver = strings.TrimSpace(bin + " " + strings.Join(extra, " "))
	t0 := time.Now()
	maxPaths := tc.MaxPaths
	if v, err := strconv.Atoi(os.Getenv("GOSYM_MAXPATHS")); err == nil && v > 0 {
		maxPaths = v // smoke runs of a tier with a small path cap (reported as path-budget)
	}
	if maxPaths == 0 {
		maxPaths = 20000
	}
	deadline := time.Duration(tc.TimeoutS) * time.Second
	if deadline == 0 {
		deadline = 10 * time.Minute
	}

	type result struct {
		w   *worker
		res *interp.PathResult
		err error
	}
	results := make(chan result, 64)
	var mu sync.Mutex
	var workers []*worker
	spawn := func() {
		w, err := startWorker(h, tier)
		if err != nil {
			results <- result{err: err}
			return
		}
		mu.Lock()
		workers = append(workers, w)
		mu.Unlock()
		results <- result{w: w}
	}
	send := func(w *worker, prefix []int64) {
		b, _ := json.Marshal(workReq{Prefix: prefix})
		w.in.Write(b)
		w.in.WriteByte('\n')
		w.in.Flush()
		go func() {
			line, err := w.out.ReadBytes('\n')
			if err != nil {
				werr := w.cmd.Wait()
				results <- result{w: w, err: fmt.Errorf("worker died: %v (exit: %v, %s)", err, werr, w.cmd.ProcessState)}
				return
			}
			var pr interp.PathResult
			if err := json.Unmarshal(line, &pr); err != nil {
				results <- result{w: w, err: err}
				return
			}
			results <- result{w: w, res: &pr}
		}()
	}

	queue := [][]int64{nil}
	broken := false // this harness does not load
	inflight := 0
	starting := 0
	var idle []*worker
	funcs := map[string]bool{}
	stubs := map[string]bool{}
	started := 0
	go spawn()
	starting++
	timedOut := false
	inflightPrefix := map[*worker][]int64{}
	for {
		// dispatch
		for len(queue) > 0 && len(idle) > 0 && rep.Paths+inflight < maxPaths {
			w := idle[len(idle)-1]
			idle = idle[:len(idle)-1]
			var p []int64
			if len(queue) < 4*nworkers {
				// breadth first while the frontier is small, so that all workers get work early
				p = queue[0]
				queue = queue[1:]
			} else {
				p = queue[len(queue)-1]
				queue = queue[:len(queue)-1]
			}
			inflightPrefix[w] = p
			send(w, p)
			inflight++
		}
		// grow the pool when there is a backlog
		for len(queue) > 0 && len(idle) == 0 && started+starting < nworkers && starting < 8 && !broken {
			go spawn()
			starting++
		}
		if inflight == 0 && starting == 0 && (len(queue) == 0 || rep.Paths >= maxPaths || timedOut) {
			break
		}
		if inflight == 0 && starting == 0 && len(idle) == 0 {
			break // no workers at all
		}
		r := <-results
		if r.res == nil && r.err == nil {
			// worker ready
			starting--
			started++
			idle = append(idle, r.w)
			continue
		}
		if r.err != nil {
			if r.w == nil {
				starting--
				rep.Inconclusive["worker-start-failed"]++
				rep.InconclMsgs = appendCapped(rep.InconclMsgs, r.err.Error())
				if rep.Inconclusive["worker-start-failed"] >= 3 && started == 0 {
					// the harness does not load (compile error, missing file): the check cannot run
					if !broken {
						fmt.Printf("ERROR harness=%s cannot start: %v\n", h.Name, r.err)
					}
					broken = true
					brokenHarness = true
					queue = nil
				}
				continue
			}
			// worker crashed on a path: record as inconclusive, drop the worker
			inflight--
			rep.Paths++
			rep.Inconclusive["worker-crashed"]++
			rep.InconclMsgs = appendCapped(rep.InconclMsgs, fmt.Sprintf("prefix %v: %v", inflightPrefix[r.w], r.err))
			started--
			continue
		}
		inflight--
		idle = append(idle, r.w)
		res := r.res
		rep.Paths++
		rep.Queries += res.Queries
		rep.SolverS += float64(res.SolverNs) / 1e9
		rep.Steps += res.Steps
		rep.SymBranches += res.SymBranches
		for _, f := range res.Funcs {
			funcs[f] = true
		}
		for _, s := range res.Stubs {
			stubs[s] = true
		}
		if !timedOut && time.Since(t0) > deadline {
			timedOut = true
			rep.Inconclusive["wall-clock-budget"]++
		}
		if !timedOut {
			queue = append(queue, res.Pending...)
		}
		switch res.Status {
		case "done":
			rep.PathsDone++
		case "infeasible":
			rep.Infeasible++
		case "panic", "deadlock":
			rep.PathsDone++ // decided: a panic obligation was recorded
		default:
			rep.Inconclusive[res.Status]++
			rep.InconclMsgs = appendCapped(rep.InconclMsgs, res.Status+": "+res.Msg)
		}
		for _, n := range res.Notes {
			if strings.HasPrefix(n, "solver-unknown") {
				rep.Inconclusive["solver-unknown"]++
			}
		}
		if res.Reached {
			rep.Reached++
			if rep.Witness == nil && len(res.Witness) > 0 {
				rep.Witness = res.Witness
			}
		}
		if res.PC != "" || res.ShapeVals != "" {
			rep.distinctPC[res.ShapeVals+"|"+res.PC] = true
		}
		for _, ob := range res.Obligations {
			rep.Obligations++
			switch ob.Status {
			case "discharged":
				rep.Discharged++
				if !ob.Concrete {
					rep.SolverDecided++
				}
			case "violated":
				rep.Violated++
				rep.violations = append(rep.violations, violation{h.Name, ob})
			case "known":
				rep.Known++
				rep.knownHits = append(rep.knownHits, violation{h.Name, ob})
			default:
				rep.Unknown++
			}
		}
		if len(rep.Samples) < 3 && res.Status == "done" && (len(res.Obligations) > 0) {
			verd := map[string]int{}
			for _, ob := range res.Obligations {
				verd[ob.Status]++
			}
			rep.Samples = append(rep.Samples, map[string]any{"harness": h.Name, "decisions": res.Taken, "shape": res.ShapeVals,
				"path_condition": res.PC, "obligations": verd})
		}
	}
	if len(queue) > 0 {
		rep.Inconclusive["path-budget"] += len(queue)
	}
	rep.Exhausted = len(queue) == 0 && !timedOut
	mu.Lock()
	for _, w := range workers {
		w.in.WriteString("{\"quit\":true}\n")
		w.in.Flush()
	}
	for _, w := range workers {
		done := make(chan struct{})
		go func(w *worker) { w.cmd.Wait(); close(done) }(w)
		select {
		case <-done:
		case <-time.After(3 * time.Second):
			w.cmd.Process.Kill()
		}
	}
	rep.Workers = len(workers)
	mu.Unlock()
	for f := range funcs {
		rep.Funcs = append(rep.Funcs, f)
	}
	sort.Strings(rep.Funcs)
	for s := range stubs {
		rep.StubsHit = append(rep.StubsHit, s)
	}
	sort.Strings(rep.StubsHit)
	for _, a := range h.Anchors {
		found := false
		for f := range funcs {
			if strings.Contains(f, a) {
				found = true
				break
			}
		}
		if !found {
			rep.AnchorsMissed = append(rep.AnchorsMissed, a)
		}
	}
	rep.WallS = time.Since(t0).Seconds()
	return rep
}

func appendCapped(xs []string, s string) []string {
	if len(s) > 300 {
		s = s[:300]
	}
	for _, x := range xs {
		if x == s {
			return xs
		}
	}
	if len(xs) < 8 {
		xs = append(xs, s)
	}
	return xs
}

// ---------------------------------------------------------------- native replay

type replayFile struct {
	Harness  string            `json:"harness"`
	Property string            `json:"property"`
	Tier     string            `json:"tier"`
	Expect   string            `json:"expect"` // "assert:<id>" or "panic"
	Msg      string            `json:"msg,omitempty"`
	Params   map[string]int    `json:"params,omitempty"`
	Inputs   []interp.InputRec `json:"inputs"`
	HookPlan map[string][]int  `json:"hook_plan,omitempty"`
}

// brokenHarness: a harness could not be loaded at all; the check exits 2 (it decided nothing)
var brokenHarness bool

var pkgClause = regexp.MustCompile(`(?m)^package\s+(\w+)`)

// nativeReplay runs the harness natively under the replay vector; returns the VERIF-RESULT line (or a panic summary).
func nativeReplay(h Harness, rfPath string) (string, string) {
	tmp, _ := os.MkdirTemp("", "gosym-replay")
	defer os.RemoveAll(tmp)
	ov := genOverlay(tmp, []Harness{h})
	src, _ := os.ReadFile(filepath.Join(verifDir, "harness", h.File))
	m := pkgClause.FindSubmatch(src)
	if m == nil {
		return "error", "no package clause in harness"
	}
	test := fmt.Sprintf("package %s\n\nimport (\n\t\"testing\"\n\tverif \"reduction.dev/reduction/zz_verif\"\n)\n\nfunc TestVerifReplay(t *testing.T) { verif.Replay(t, %s) }\n", m[1], h.Func)
	testPath := filepath.Join(tmp, "replay_test.go")
	os.WriteFile(testPath, []byte(test), 0o644)
	ov[filepath.Join(repoDir, harnessPkgDir(h), "zz_verif_replay_test.go")] = testPath
	ovj, _ := json.Marshal(map[string]any{"Replace": ov})
	ovPath := filepath.Join(tmp, "overlay.json")
	os.WriteFile(ovPath, ovj, 0o644)
	// harnesses whose counterexamples depend on choices the Go runtime makes at random natively
	// (select among ready cases) are replayed several times: any failing run is a reproduction
	attempts := 1
	if h.ReplayAttempts > 1 {
		attempts = h.ReplayAttempts
	}
	cmd := exec.Command("go", "test", "-v", "-tags", "verif", "-vet=off", fmt.Sprintf("-count=%d", attempts), "-failfast", "-run", "^TestVerifReplay$", "-timeout", "120s", "-overlay", ovPath, "./"+harnessPkgDir(h))
	cmd.Dir = repoDir
	cmd.Env = append(goEnv(), "VERIF_REPLAY="+rfPath)
	out, _ := cmd.CombinedOutput()
	so := string(out)
	first := ""
	for _, line := range strings.Split(so, "\n") {
		if strings.HasPrefix(line, "VERIF-RESULT ") {
			res := strings.TrimPrefix(line, "VERIF-RESULT ")
			if !strings.HasPrefix(res, "pass") {
				return res, so
			}
			if first == "" {
				first = res
			}
		}
	}
	if i := strings.Index(so, "panic: "); i >= 0 {
		end := strings.IndexByte(so[i:], '\n')
		if end < 0 {
			end = len(so) - i
		}
		return "panic " + so[i+7:i+end], so
	}
	if strings.Contains(so, "fatal error: all goroutines are asleep") || strings.Contains(so, "test timed out") {
		return "panic deadlock/timeout", so
	}
	if first != "" {
		return first, so
	}
	return "error", so
}

// reproduces: the native run of the harness on the real build fails (an assertion of the
// harness or a panic). The native failure is the evidence; which obligation the symbolic run
// predicted is reported alongside but need not be the same one.
func reproduces(expect, got string) bool {
	return strings.HasPrefix(got, "assert id=") || strings.HasPrefix(got, "panic")
}

func writeReplay(prop string, h Harness, tier string, ob interp.Obligation) string {
	dir := filepath.Join(verifDir, "replays", prop)
	os.MkdirAll(dir, 0o755)
	expect := "assert:" + ob.ID
	if ob.Kind == "nopanic" {
		expect = "panic"
	}
	rf := replayFile{Harness: h.Name, Property: prop, Tier: tier, Expect: expect, Msg: ob.Msg, Params: h.tier(tier).Params, Inputs: ob.Inputs, HookPlan: ob.HookPlan}
	b, _ := json.MarshalIndent(rf, "", " ")
	id := regexp.MustCompile(`[^A-Za-z0-9_.-]+`).ReplaceAllString(ob.ID, "_")
	if len(id) > 60 {
		id = id[:60]
	}
	p := filepath.Join(dir, fmt.Sprintf("%s-%s.json", h.Name, id))
	os.WriteFile(p, b, 0o644)
	return p
}

func cmdReplay(args []string) {
	if len(args) < 1 {
		fatal("usage: gosym replay <file>")
	}
	b, err := os.ReadFile(args[0])
	if err != nil {
		fatal("%v", err)
	}
	var rf replayFile
	if err := json.Unmarshal(b, &rf); err != nil {
		fatal("%v", err)
	}
	h := findHarness(rf.Harness)
	abs, _ := filepath.Abs(args[0])
	got, out := nativeReplay(h, abs)
	fmt.Println(out)
	fmt.Printf("expected %s, native run gave: %s\n", rf.Expect, got)
	if reproduces(rf.Expect, got) {
		fmt.Printf("VIOLATION property=%s replay=%s\n", rf.Property, abs)
		os.Exit(1)
	}
	os.Exit(0)
}

// ---------------------------------------------------------------- check

func cmdCheck(args []string) {
	fs := flag.NewFlagSet("check", flag.ExitOnError)
	prop := fs.String("p", "", "property id")
	tier := fs.String("tier", envOr("VERIF_TIER", "quick"), "quick|thorough")
	only := fs.String("harness", "", "run just this harness (no evidence written)")
	defWorkers := runtime.NumCPU()
	if v, err := strconv.Atoi(os.Getenv("GOSYM_WORKERS")); err == nil && v > 0 {
		defWorkers = v
	}
	nw := fs.Int("workers", defWorkers, "")
	fs.Parse(args)
	if *tier != "thorough" {
		*tier = "quick"
	}
	seed, _ := strconv.Atoi(os.Getenv("VERIF_SEED"))
	t0 := time.Now()
	var hs []Harness
	for _, h := range loadRegistry() {
		if h.Property == *prop && (*only == "" || *only == h.Name) && !h.tier(*tier).Skip {
			hs = append(hs, h)
		}
	}
	if len(hs) == 0 {
		fatal("no harness registered for property %s", *prop)
	}
	findings := loadFindings()
	var reports []*harnessReport
	exit := 0
	var lines []string
	violationsTotal := 0
	var knownLines []string
	mismatches := 0
	for _, h := range hs {
		fmt.Printf("== %s (%s, %s)\n", h.Name, harnessPkgDir(h), *tier)
		rep := explore(h, *tier, *nw)
		reports = append(reports, rep)
		fmt.Printf("   paths=%d done=%d infeasible=%d obligations=%d discharged=%d (solver %d) violated=%d known=%d unknown=%d queries=%d solver=%.1fs wall=%.1fs inconclusive=%v\n",
			rep.Paths, rep.PathsDone, rep.Infeasible, rep.Obligations, rep.Discharged, rep.SolverDecided, rep.Violated, rep.Known, rep.Unknown, rep.Queries, rep.SolverS, rep.WallS, rep.Inconclusive)
		for k, n := range rep.Inconclusive {
			lines = append(lines, fmt.Sprintf("INCONCLUSIVE harness=%s reason=%s count=%d", h.Name, k, n))
		}
		for _, m := range rep.InconclMsgs {
			lines = append(lines, fmt.Sprintf("INCONCLUSIVE-DETAIL harness=%s %s", h.Name, m))
		}
		if rep.Reached == 0 {
			lines = append(lines, fmt.Sprintf("INCONCLUSIVE harness=%s reason=vacuous (no path reached verif.Reached)", h.Name))
			rep.Inconclusive["vacuous"]++
		}
		// known findings re-derived
		seenKnown := map[string]bool{}
		for _, v := range rep.knownHits {
			key := v.Ob.Finding + "|" + v.Ob.ID
			if seenKnown[key] {
				continue
			}
			seenKnown[key] = true
			what := v.Ob.Finding
			for _, f := range findings {
				if f.ID == v.Ob.Finding {
					what = f.ID + " " + f.What
				}
			}
			p := writeReplay(*prop, h, *tier, v.Ob)
			got, _ := "", ""
			if !h.NoReplay {
				got, _ = nativeReplay(h, p)
			}
			knownLines = append(knownLines, fmt.Sprintf("KNOWN-FINDING: property=%s %s (harness %s, assertion %s, native replay: %s)", *prop, what, h.Name, v.Ob.ID, got))
		}
		// violations: replay natively before reporting, one report per (harness, obligation id);
		// if the first counterexample of a group does not reproduce (its schedule may depend on
		// choices the Go runtime makes at random), up to three further ones of the group are tried
		keyOf := func(v violation) string {
			key := v.Ob.Kind + "|" + v.Ob.ID
			if v.Ob.Kind == "nopanic" {
				if strings.HasPrefix(v.Ob.Msg, "deadlock") {
					key += "|deadlock" // the blocked-goroutine description differs per schedule
				} else {
					key += "|" + v.Ob.Msg
				}
			}
			return key
		}
		groups := map[string][]violation{}
		var order []string
		for _, v := range rep.violations {
			key := keyOf(v)
			if _, ok := groups[key]; !ok {
				order = append(order, key)
			}
			if len(groups[key]) < 4 {
				groups[key] = append(groups[key], v)
			}
		}
		for _, key := range order {
			cands := groups[key]
			v := cands[0]
			p := writeReplay(*prop, h, *tier, v.Ob)
			if h.NoReplay {
				lines = append(lines, fmt.Sprintf("INCONCLUSIVE harness=%s reason=counterexample-not-natively-replayable id=%s replay=%s", h.Name, v.Ob.ID, p))
				rep.Inconclusive["cex-not-replayable"]++
				continue
			}
			reproduced := false
			var rf replayFile
			got, out := "", ""
			for _, c := range cands {
				v = c
				p = writeReplay(*prop, h, *tier, c.Ob)
				b, _ := os.ReadFile(p)
				rf = replayFile{}
				json.Unmarshal(b, &rf)
				got, out = nativeReplay(h, p)
				if reproduces(rf.Expect, got) {
					reproduced = true
					break
				}
			}
			if reproduced {
				violationsTotal++
				exit = 1
				lines = append(lines, fmt.Sprintf("VIOLATION property=%s replay=%s", *prop, p))
				lines = append(lines, fmt.Sprintf("  harness=%s obligation=%s %s native=%q", h.Name, v.Ob.ID, v.Ob.Msg, got))
			} else {
				mismatches++
				rep.Inconclusive["engine-mismatch"]++
				os.WriteFile(p+".native.log", []byte(out), 0o644)
				lines = append(lines, fmt.Sprintf("INCONCLUSIVE harness=%s reason=engine-mismatch id=%s expected=%s native=%q replay=%s", h.Name, v.Ob.ID, rf.Expect, got, p))
			}
		}
	}
	for _, l := range knownLines {
		fmt.Println(l)
	}
	sort.Strings(lines)
	for _, l := range lines {
		fmt.Println(l)
	}
	if *only == "" {
		writeEvidence(*prop, *tier, seed, reports, violationsTotal, time.Since(t0).Seconds())
	}
	fmt.Printf("property %s tier %s: %d harnesses, %d violations, %.1fs\n", *prop, *tier, len(hs), violationsTotal, time.Since(t0).Seconds())
	if brokenHarness && exit == 0 {
		exit = 2
	}
	os.Exit(exit)
}

func writeEvidence(prop, tier string, seed int, reps []*harnessReport, violations int, wall float64) {
	obl, dis, evals, distinct, queries := 0, 0, 0, 0, 0
	solverS := 0.0
	var samples []any
	funcs := map[string]bool{}
	var assumptions []string
	assumptions = append(assumptions,
		"bounds as listed per harness; nothing is claimed outside them",
		"intrinsics/stubs of the interpreter (DESIGN.md §2.6): bytes.Compare/Equal/HasPrefix as ITE terms, fmt/errors message text opaque, log/slog and metrics empty, sync/atomic/channels on a deterministic scheduler at sync-point granularity",
		"go/ssa v0.29.0 lowering of the repository source is faithful; counterexamples are only reported after a native replay against the real build")
	allExhausted := true
	for _, r := range reps {
		obl += r.Obligations
		dis += r.Discharged
		evals += r.Paths
		distinct += len(r.distinctPC)
		queries += r.Queries
		solverS += r.SolverS
		for _, s := range r.Samples {
			samples = append(samples, s)
		}
		for _, f := range r.Funcs {
			funcs[f] = true
		}
		if !r.Exhausted || len(r.Inconclusive) > 0 {
			allExhausted = false
		}
		for _, s := range r.DeclaredStubs {
			assumptions = append(assumptions, r.Name+": "+s)
		}
	}
	if len(samples) == 0 {
		samples = append(samples, map[string]any{"note": "no completed path carried an obligation"})
	}
	var fl []string
	for f := range funcs {
		fl = append(fl, f)
	}
	sort.Strings(fl)
	ev := map[string]any{
		"property_id": prop, "tier": tier, "seed": seed, "level": "other", "wall_s": wall, "violations": violations,
		"coverage": map[string]any{
			"explanation": "bounded symbolic execution of the real go/ssa of /repo (regenerated from the working tree on this run): scalar inputs are SMT bit-vector variables, every explored path stands for all inputs satisfying its path condition, and each assertion / no-panic obligation on it is decided by the SMT solver for all of them at once; shape inputs (lengths, operation kinds, schedules) are enumerated as path decisions",
			"harnesses":   reps,
			"obligations": obl, "discharged": dis,
			"evaluations": evals, "distinct_nontrivial": distinct,
			"rule":              "one evaluation = one explored path; distinct_nontrivial counts distinct (shape decisions, path condition) pairs among explored paths, i.e. distinct symbolic input classes",
			"samples":           samples,
			"queries":           queries,
			"solver_s":          solverS,
			"functions_encoded": fl,
			"exhaustive":        allExhausted,
			"trusted_base":      []string{"golang.org/x/tools go/ssa v0.29.0", "gosym interpreter + intrinsics (/verif/engine)", "z3 5.1 (z3-new) / cvc5 1.0"},
		},
		"assumptions": assumptions,
	}
	os.MkdirAll(filepath.Join(verifDir, "evidence"), 0o755)
	b, _ := json.MarshalIndent(ev, "", " ")
	os.WriteFile(filepath.Join(verifDir, "evidence", prop+".json"), b, 0o644)
}

// cmdGoTest runs `go test` in /repo with the generated-protobuf overlay (packages that
// import *.pb.go do not build without it): gosym gotest ./workers/operator/...
func cmdGoTest(args []string) {
	tmp, _ := os.MkdirTemp("", "gosym-gotest")
	defer os.RemoveAll(tmp)
	ov := genOverlay(tmp, nil)
	delete(ov, filepath.Join(repoDir, "zz_verif", "verif.go"))
	delete(ov, filepath.Join(repoDir, "zz_verif", "verif_hooks.go"))
	ovj, _ := json.Marshal(map[string]any{"Replace": ov})
	ovPath := filepath.Join(tmp, "overlay.json")
	os.WriteFile(ovPath, ovj, 0o644)
	a := append([]string{"test", "-vet=off", "-count=1", "-overlay", ovPath}, args...)
	cmd := exec.Command("go", a...)
	cmd.Dir = repoDir
	cmd.Env = goEnv()
	cmd.Stdout, cmd.Stderr = os.Stdout, os.Stderr
	if err := cmd.Run(); err != nil {
		os.RemoveAll(tmp)
		os.Exit(1)
	}
}

func main() {
	if len(os.Args) < 2 {
		fatal("usage: gosym check|run|worker|replay ...")
	}
	switch os.Args[1] {
	case "check":
		cmdCheck(os.Args[2:])
	case "run":
		runtime.GOMAXPROCS(2)
		debug.SetGCPercent(200)
		cmdRun(os.Args[2:])
	case "worker":
		// exactly one interpreted goroutine runs at a time (baton passing); more Ps only add
		// cross-thread wake-ups and GC threads that fight with the other workers
		runtime.GOMAXPROCS(1)
		debug.SetGCPercent(150)
		debug.SetMemoryLimit(3 << 30)
		cmdWorker(os.Args[2:])
	case "replay":
		cmdReplay(os.Args[2:])
	case "gotest":
		cmdGoTest(os.Args[2:])
	default:
		fatal("unknown command %s", os.Args[1])
	}
}
