import sys,json,collections
c=collections.Counter(); o=collections.Counter(); shown=0
for l in sys.stdin:
    if not l.startswith('{'): print(l.strip()); continue
    r=json.loads(l); c[r['status']]+=1
    if r['status'] not in ('done','infeasible') and shown<6:
        shown+=1; print(r['status'], (r.get('msg') or '')[:600], r['prefix'])
    for ob in r.get('obligations',[]) or []:
        o[ob['status']]+=1
        if ob['status']!='discharged' and shown<6:
            shown+=1; print(' ', ob['id'], ob['status'], (ob.get('msg','') or '')[:300], str([(i['name'],i['val']) for i in ob.get('inputs',[]) or []])[:400])
    for n in r.get('notes',[]) or []: print('  note:', n)
print(dict(c), dict(o))
