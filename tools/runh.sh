#!/bin/sh
# debug helper: run one harness in-process over all paths and summarise
cd /verif && ./bin/gosym run -harness "$1" -all ${2:+-tier $2} 2>&1 | python3 tools/summ.py
