#!/usr/bin/env python3
# regenerate the seeded-change table of DESIGN.md (between the markers) from seeded/*/meta.json
import json,glob,os,re
rows=[]
for p in sorted(glob.glob('/verif/seeded/*/meta.json')):
    m=json.load(open(p))
    first=m.get('first_result','')
    for prop,c in sorted(m.get('checks',{}).items()):
        hs=sorted({d.split(' ')[0].replace('harness=','') for d in c.get('natively_reproduced_obligations',[])})
        own=prop==m['property']
        rows.append('| `%s` | %s | %s | %s | %s | %s | %s |'%(m['id'],prop,m.get('needs_to_manifest','').replace('|','/') if own else '(same change, other property)',(m.get('first_run','') if own else '-'),'caught' if c['detected'] else 'MISSED',', '.join('`%s`'%h for h in hs) if c['detected'] else '',m.get('strengthening','') if own else ''))
tbl='| seeded change | check | needs to manifest | first run | now | detecting harness | what was strengthened |\n|---|---|---|---|---|---|---|\n'+'\n'.join(rows)+'\n'
d=open('/verif/DESIGN.md').read()
a,b='<!-- seeded-table-begin -->','<!-- seeded-table-end -->'
if a in d:
    d=d[:d.index(a)+len(a)]+'\n'+tbl+d[d.index(b):]
    open('/verif/DESIGN.md','w').write(d)
print(tbl)
