#!/bin/bash
# usage: tools/seedtest.sh <seed-id> <property> <dir-with-SEED-files> <package-dir-of-demo> "<what it needs to manifest>"
# 1. confirm the seeded change in a fresh scratch worktree (applies, builds, baseline tests pass,
#    demo fails with it and passes without it); 2. store it under seeded/<id>; 3. run the property's
#    quick check against it in /repo and undo.
set -u
ID=$1; PROP=$2; SRC=$3; PKG=$4; NEEDS=${5:-}
V=/tmp/wt/verify_$ID
export GOFLAGS=-mod=mod GOPROXY=off
mkdir -p /tmp/wt
if [ ! -d /tmp/pbgen_out/proto ]; then
  # generated protobuf code (not part of the repository) for building the worktree
  mkdir -p /tmp/pbgen_out && (cd /repo && /verif/bin/pbgen /repo /tmp/pbgen_out /verif/bin $(git ls-files '*.proto')) || exit 2
fi
rm -rf $V; git -C /repo worktree remove --force $V 2>/dev/null
git -C /repo worktree add --detach $V HEAD >/dev/null 2>&1 || exit 2
cp -r /tmp/pbgen_out/* $V/
cd $V
git apply $SRC/patch.diff 2>/dev/null || git apply -3 $SRC/patch.diff || { echo "PATCH DOES NOT APPLY"; exit 2; }
git reset -q; git diff > /tmp/wt/rebased_$ID.diff   # the change re-based on the current HEAD of /repo
go build ./... || { echo "BUILD FAILS"; exit 2; }
BASE=$(go test -count=1 ./batching/... ./dkv/... ./storage/locations/... ./storage/objstore/... ./util/... 2>&1 | grep -c "^FAIL\|^---")
echo "baseline failures with change: $BASE"
cp $SRC/zz_demo_test.go $V/$PKG/zz_demo_test.go
go test -count=1 -run 'Demo' ./$PKG/ > /tmp/wt/demo_with_$ID.log 2>&1; W=$?
git apply -R /tmp/wt/rebased_$ID.diff
go test -count=1 -run 'Demo' ./$PKG/ > /tmp/wt/demo_without_$ID.log 2>&1; WO=$?
echo "demo exit with change: $W (want != 0), without: $WO (want 0)"
cd /verif
git -C /repo worktree remove --force $V
mkdir -p seeded/$ID && cp /tmp/wt/rebased_$ID.diff seeded/$ID/patch.diff && cp $SRC/zz_demo_test.go seeded/$ID/ && cp $SRC/NOTES.md seeded/$ID/NOTES.md 2>/dev/null
git -C /repo apply /verif/seeded/$ID/patch.diff || { echo "DOES NOT APPLY TO /repo"; exit 2; }
sh tools/check.sh $PROP quick > /tmp/wt/check_$ID.log 2>&1; C=$?
git -C /repo checkout -- .
echo "check exit: $C"; grep "VIOLATION\|harness=.*native\|INCONCLUSIVE" /tmp/wt/check_$ID.log | head -8
echo "RESULT id=$ID baseline_fail=$BASE demo_with=$W demo_without=$WO check_exit=$C"
DET=$(grep -o "harness=[A-Za-z0-9_]* obligation=[a-z0-9-]*" /tmp/wt/check_$ID.log | sort -u | tr '\n' ';')
python3 - "$ID" "$PROP" "$PKG" "$NEEDS" "$BASE" "$W" "$WO" "$C" "$DET" <<'PY'
import json,sys,os
id,prop,pkg,needs,base,w,wo,c,det=sys.argv[1:]
p='/verif/seeded/%s/meta.json'%id
m=json.load(open(p)) if os.path.exists(p) else {}
m.update({"id":id,"property":prop,"origin":"fresh sub-agent given only the property text and a scratch worktree","demo_package":pkg,
 "needs_to_manifest":needs or m.get("needs_to_manifest",""),
 "confirmed_in_scratch_worktree":{"applies_and_builds":True,"existing_tests_failing_with_change":int(base),"demo_exit_with_change":int(w),"demo_exit_without_change":int(wo),
   "commands":["git apply patch.diff; go build ./...","go test -count=1 ./batching/... ./dkv/... ./storage/locations/... ./storage/objstore/... ./util/...","go test -count=1 -run Demo ./%s/ (with and without the change)"%pkg]}})
m.setdefault("checks",{})[prop]={"command":"sh tools/check.sh %s quick (patch applied to /repo, then git checkout -- .)"%prop,"exit":int(c),"detected":int(c)==1,"natively_reproduced_obligations":[d for d in det.split(';') if d]}
json.dump(m,open(p,'w'),indent=1)
PY
