#!/bin/bash
# usage: tools/seedcheck.sh <seed-id> <property> [tier]
# run one property's check against an already stored seeded change (applied to /repo, undone afterwards)
set -u
ID=$1; PROP=$2; TIER=${3:-quick}
cd /verif
git -C /repo apply /verif/seeded/$ID/patch.diff || { echo "DOES NOT APPLY TO /repo"; exit 2; }
mkdir -p /tmp/wt
sh tools/check.sh $PROP $TIER > /tmp/wt/check_${ID}_$PROP.log 2>&1; C=$?
git -C /repo checkout -- .
echo "check exit: $C"; grep "VIOLATION\|harness=.*native\|INCONCLUSIVE" /tmp/wt/check_${ID}_$PROP.log | head -8
DET=$(grep -o "harness=[A-Za-z0-9_]* obligation=[a-z0-9-]*" /tmp/wt/check_${ID}_$PROP.log | sort -u | tr '\n' ';')
python3 - "$ID" "$PROP" "$TIER" "$C" "$DET" <<'PY'
import json,sys
id,prop,tier,c,det=sys.argv[1:]
p='/verif/seeded/%s/meta.json'%id
m=json.load(open(p))
m.setdefault("checks",{})[prop]={"command":"sh tools/check.sh %s %s (patch applied to /repo, then git checkout -- .)"%(prop,tier),"exit":int(c),"detected":int(c)==1,"natively_reproduced_obligations":[d for d in det.split(';') if d]}
json.dump(m,open(p,'w'),indent=1)
PY
echo "RESULT id=$ID property=$PROP check_exit=$C"
