#!/bin/sh
# usage: tools/check.sh <property> <quick|thorough>
cd "$(dirname "$0")/.."
unset GOSUMDB GOTOOLCHAIN
export GOFLAGS=-mod=mod GOPROXY=off
[ -x bin/gosym ] || sh tools/setup.sh >/dev/null 2>&1
exec ./bin/gosym check -p "$1" -tier "${2:-quick}"
