#!/bin/sh
# Build the framework offline from files on disk only.
set -e
cd "$(dirname "$0")/.."
export GOFLAGS=-mod=mod GOPROXY=off
unset GOSUMDB GOTOOLCHAIN
mkdir -p bin evidence
(cd pbgen && go build -o ../bin/pbgen . && go build -o ../bin/protoc-gen-go google.golang.org/protobuf/cmd/protoc-gen-go && go build -o ../bin/protoc-gen-connect-go connectrpc.com/connect/cmd/protoc-gen-connect-go)
(cd engine && go build -o ../bin/gosym ./cmd/gosym)
echo "setup ok"
