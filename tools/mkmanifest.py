#!/usr/bin/env python3
"""Generate MANIFEST.json from tools/claims.json (claimed checks) and properties.jsonl."""
import json, os
root = os.path.dirname(os.path.dirname(os.path.abspath(__file__)))
claims = json.load(open(os.path.join(root, "tools", "claims.json")))
props = [json.loads(l)["id"] for l in open(os.path.join(root, "properties.jsonl"))]
checks, na = [], []
for pid in props:
    c = claims.get(pid)
    if c and c.get("claimed"):
        checks.append({
            "property_id": pid,
            "quick_cmd": f"sh tools/check.sh {pid} quick",
            "thorough_cmd": f"sh tools/check.sh {pid} thorough",
            "evidence_file": f"/verif/evidence/{pid}.json",
            "replay_cmd_template": "./bin/gosym replay {path}",
            "engine": "gosym",
            "level_claimed": {"category": "other", "text": c["text"], "design_ref": c.get("design_ref", "DESIGN.md §4 " + pid)},
            "level_note": c["note"],
            "technique": c.get("technique", "bounded symbolic execution of the real go/ssa of /repo, obligations decided by an SMT solver (z3 5.1 / cvc5), counterexamples replayed natively"),
        })
    else:
        na.append({"property_id": pid, "reason": (c or {}).get("reason", "no solver-based check built yet for this property (work in progress; see DESIGN.md)")})
m = {
    "version": 1,
    "setup_cmd": "sh tools/setup.sh",
    "hooks": {
        "guard": "verif",
        "enable": "go test -tags verif (native replays of schedule counterexamples force the passage order at verifhook.Point call sites); symbolic runs need no tag: gosym intercepts verifhook.Point by name. Harnesses, the verif runtime package and generated protobuf code are injected by build overlays",
        "baseline_off_cmd": "cd /repo && go test -vet=off -count=1 ./batching/... ./dkv/... ./storage/locations/... ./storage/objstore/... ./util/...",
        "source_commits": json.load(open(os.path.join(root, "tools", "hooks.json"))),
        "add_only": True,
    },
    "engines": [{"name": "gosym", "path": "/verif/engine", "serves_properties": [c["property_id"] for c in checks],
                 "kind_free_text": "fork of golang.org/x/tools/go/ssa/interp v0.29.0 executing /repo's SSA with symbolic scalars; path conditions and obligations decided by z3 5.1 (z3-new) over SMT-LIB bit-vectors; deterministic goroutine scheduler; native replay through go test -overlay"}],
    "checks": checks,
    "not_applicable": na,
    "notes": "All checks share one engine (gosym). Evidence is written by the check run itself. KNOWN_FINDINGS.jsonl lists repaired defects (fixed:) and recorded findings (known).",
}
json.dump(m, open(os.path.join(root, "MANIFEST.json"), "w"), indent=1)
print("claimed:", [c["property_id"] for c in checks])
